#!/usr/bin/env python3
"""setup: verify the offline tool chain is present (no build step is needed)."""
import shutil, subprocess, sys
ok = True
for t in ('verus', 'cargo-kani', 'cbmc'):
    if shutil.which(t) is None:
        print('missing tool: ' + t); ok = False
sys.exit(0 if ok else 1)
