#!/bin/bash
# confirm_seed.sh <PROP> <LETTER>: independently confirm a seeded change produced by a sub-agent:
#   unchanged+demo passes, patched+demo fails, patched alone passes the 57 tests.  Then store it under /verif/seeded/.
set -u
P=$1; L=$2
W=/tmp/mut/$P
PATCH=/tmp/mut/$P.$L.patch.diff; DEMO=/tmp/mut/$P.$L.demo.diff
[ -d "$W" ] || git -C /repo worktree add -q --detach "$W" HEAD
cp -n /repo/Cargo.lock "$W"/ 2>/dev/null
run() { (cd "$W" && cargo nextest run --workspace --no-fail-fast --offline --test-threads 8 2>&1 | grep -E "^\s+Summary|^\s+FAIL " | sort -u | tail -4); }
clean() { git -C "$W" checkout -q -- . ; git -C "$W" clean -fdq -e target -e Cargo.lock; }
clean
git -C "$W" apply "$DEMO" || { echo "demo does not apply"; exit 1; }
A=$(run); echo "unchanged+demo: $A"
clean
git -C "$W" apply "$PATCH" || { echo "patch does not apply"; exit 1; }
B=$(run); echo "patched alone: $B"
git -C "$W" apply "$DEMO" || { echo "demo does not apply on patched"; exit 1; }
C=$(run); echo "patched+demo: $C"
clean
ok=1
echo "$A" | grep -Eq "(58|59|60) passed, 0 skipped" || ok=0
echo "$B" | grep -q "57 passed" || ok=0
echo "$C" | grep -Eq "(57|58|59) passed, [1-3] failed" || ok=0
if [ $ok = 1 ]; then
  D=/verif/seeded/$P-$L; mkdir -p $D
  cp "$PATCH" $D/patch.diff; cp "$DEMO" $D/demo.diff; cp /tmp/mut/$P.$L.meta.txt $D/agent_notes.txt
  python3 - "$P" "$L" "$A" "$B" "$C" <<'PY'
import json,sys
P,L,A,B,C=sys.argv[1:6]
notes=open('/tmp/mut/%s.%s.meta.txt'%(P,L)).read()
json.dump({"property":P,"id":"%s-%s"%(P,L),"breaks":P,"needs_to_manifest":notes.strip().split('\n')[0:6],
 "confirmed_by":"tools/confirm_seed.sh in scratch worktree /tmp/mut/%s"%P,
 "ran":["unchanged+demo: "+A.strip(),"patched alone: "+B.strip(),"patched+demo: "+C.strip()],
 "detected_by":[]},open('/verif/seeded/%s-%s/meta.json'%(P,L),'w'),indent=1)
PY
  echo "CONFIRMED $P-$L"
else
  echo "NOT CONFIRMED $P-$L"
fi
