#!/bin/bash
# confirm_harmless.sh <PROP> <N>: the behaviour-preserving change /tmp/mut/<PROP>.H<N>.patch.diff applies and the 57 tests pass; store it.
set -u
P=$1; N=$2
W=/tmp/mut/$P
PATCH=/tmp/mut/$P.H$N.patch.diff
[ -d "$W" ] || git -C /repo worktree add -q --detach "$W" HEAD
cp -n /repo/Cargo.lock "$W"/ 2>/dev/null
git -C "$W" checkout -q -- . ; git -C "$W" clean -fdq -e target -e Cargo.lock
git -C "$W" apply "$PATCH" || { echo "patch does not apply"; exit 1; }
B=$(cd "$W" && cargo nextest run --workspace --no-fail-fast --offline --test-threads 8 2>&1 | grep -E "^\s+Summary" | tail -1)
git -C "$W" checkout -q -- . ; git -C "$W" clean -fdq -e target -e Cargo.lock
if echo "$B" | grep -q "57 passed, 0 skipped"; then
  D=/verif/harmless/$P-H$N; mkdir -p $D
  cp "$PATCH" $D/patch.diff; cp /tmp/mut/$P.H$N.meta.txt $D/agent_notes.txt
  python3 - "$P" "$N" "$B" <<'PY'
import json,sys
P,N,B=sys.argv[1:4]
json.dump({"id":"%s-H%s"%(P,N),"property":P,"kind":"behaviour-preserving change (must not alarm)","tests":B.strip(),"runs":{}},open('/verif/harmless/%s-H%s/meta.json'%(P,N),'w'),indent=1)
PY
  echo "STORED $P-H$N"
else
  echo "NOT STORED $P-H$N: $B"
fi
