#!/usr/bin/env python3
"""kanirun.py — runs Kani harnesses from /verif/kani/*.rs against a scratch copy of the
*current* /repo working tree.  The harness modules are appended as child modules
(`#[cfg(kani)] #[path = ".."] mod verif_kani;`) so the real code is untouched.

Returns per-harness verdicts: 'ok' | 'fail' (with failed check descriptions and concrete values
when available) | 'error' (compile error, timeout, out of memory => not a verdict).
"""
import json
import os
import re
import shutil
import subprocess
import sys
import time

VERIF = os.path.abspath(os.path.join(os.path.dirname(__file__), '..'))
SCRATCH_ROOT = os.environ.get('VERIF_SCRATCH', '/tmp/verif-scratch')
TARGET_DIR = os.path.join(VERIF, '.cache', 'kani-target')

# source file (relative to repo) -> harness module file in /verif/kani
MODULES = {
    'src/lib.rs': ['support.rs'],
    'src/queue.rs': ['queue.rs'],
}


def modules():
    """MODULES extended by kani/modules.json if present: {"src/x.rs": ["x.rs", ...]}"""
    m = {k: list(v) for k, v in MODULES.items()}
    import glob
    for p in sorted(glob.glob(os.path.join(VERIF, 'kani', 'modules.d', '*.json'))):
        for k, v in json.load(open(p)).items():
            m.setdefault(k, [])
            for f in v:
                if f not in m[k]:
                    m[k].append(f)
    return m


def prepare(repo, tag, append_to=None, harnesses=None):
    """Copy the working tree (src, Cargo.toml, Cargo.lock) and append harness modules."""
    dst = os.path.join(SCRATCH_ROOT, 'kani-' + tag)
    if os.path.exists(dst):
        shutil.rmtree(dst)
    os.makedirs(dst)
    shutil.copytree(os.path.join(repo, 'src'), os.path.join(dst, 'src'))
    for f in ('Cargo.toml', 'Cargo.lock', 'rust-toolchain.toml'):
        p = os.path.join(repo, f)
        if os.path.exists(p) and f != 'rust-toolchain.toml':
            shutil.copy(p, dst)
    os.makedirs(os.path.join(dst, '.cargo'), exist_ok=True)
    open(os.path.join(dst, '.cargo', 'config.toml'), 'w').write('[net]\noffline = true\n')
    needed = None
    if harnesses:
        # only the harness modules that define a requested harness are compiled in (a broken module of another
        # unit must not take this one down)
        needed = {'support.rs'}
        for h in harnesses:
            m = module_of(h)
            if m:
                needed.add(m)
    for src, mods in modules().items():
        p = os.path.join(dst, src)
        if not os.path.exists(p):
            continue  # file vanished: harnesses needing it will fail to compile => error verdict
        with open(p, 'a') as f:
            for m in mods:
                if needed is not None and m not in needed:
                    continue
                name = 'verif_' + os.path.splitext(m)[0].replace('-', '_')
                if m == 'support.rs':
                    name = 'verif_support'
                vis = 'pub(crate) ' if m == 'support.rs' else ''
                mpath = os.path.join(VERIF, 'kani', m)
                if append_to and m in append_to:
                    # replay: use a private copy of the harness module with the playback test appended
                    cp = os.path.join(dst, 'verif_replay_' + m)
                    open(cp, 'w').write(open(mpath).read() + '\n' + append_to[m] + '\n')
                    mpath = cp
                f.write('\n#[cfg(kani)]\n#[path = "%s"]\n%smod %s;\n' % (mpath, vis, name))
    return dst


CHECK_RE = re.compile(r'^Check (\d+): (\S+)\n\s+- Status: (\w+)\n\s+- Description: "(.*)"\n\s+- Location: (.*)$', re.M)


def tree_hash(repo, harness=None):
    """content hash of everything a harness verdict depends on: the repo sources, support.rs, the harness module that
    defines it (only that one is compiled in, see prepare), the module map and this file"""
    import hashlib
    h = hashlib.sha256()
    files = []
    only = None
    if harness is not None:
        m = module_of(harness)
        if m:
            only = {'support.rs', m}
    for root, _, fs in os.walk(os.path.join(repo, 'src')):
        for f in fs:
            files.append(os.path.join(root, f))
    files += [os.path.join(repo, 'Cargo.toml'), os.path.join(repo, 'Cargo.lock')]
    for root, _, fs in os.walk(os.path.join(VERIF, 'kani')):
        for f in fs:
            if only is not None and f.endswith('.rs') and f not in only:
                continue
            files.append(os.path.join(root, f))
    files.append(os.path.abspath(__file__))
    for f in sorted(files):
        if os.path.exists(f):
            h.update(f.encode()); h.update(open(f, 'rb').read())
    return h.hexdigest()[:24]


def run_cached(repo, harnesses, tag='default', timeout=900, jobs=4):
    """Like run(), but verdicts are remembered per (content hash of repo sources + harness sources, harness):
    the same inputs give the same verdict.  VERIF_NO_KANI_CACHE=1 disables it."""
    if os.environ.get('VERIF_NO_KANI_CACHE') == '1':
        return run(repo, harnesses, tag, timeout, jobs)
    cdirs = {}
    for h in harnesses:
        cdirs[h] = os.path.join(VERIF, '.cache', 'kani-results', tree_hash(repo, h))
        os.makedirs(cdirs[h], exist_ok=True)
    out = {}
    todo = []
    for h in harnesses:
        p = os.path.join(cdirs[h], h + '.json')
        if os.path.exists(p):
            out[h] = json.load(open(p))
            out[h]['cached'] = True
        else:
            todo.append(h)
    if todo:
        res = run(repo, todo, tag, timeout, jobs)
        for h, r in res.items():
            out[h] = r
            if r['status'] in ('ok', 'fail'):
                json.dump(r, open(os.path.join(cdirs[h], h + '.json'), 'w'))
    return out


def run(repo, harnesses, tag='default', timeout=900, jobs=4, playback=False, extra_args=None):
    """Run the given harness names (list).  Returns dict name -> result."""
    t0 = time.time()
    dst = prepare(repo, tag, None, harnesses)
    env = dict(os.environ)
    env['CARGO_NET_OFFLINE'] = 'true'
    env['CARGO_TARGET_DIR'] = TARGET_DIR
    env.pop('RUSTUP_TOOLCHAIN', None)
    results = {}
    cmd = ['prlimit', '--as=' + os.environ.get('VERIF_KANI_AS', '30000000000'), 'cargo', 'kani', '-Z', 'stubbing']
    if playback:
        cmd += ['--output-format', 'regular', '-Z', 'concrete-playback', '--concrete-playback=print']
    else:
        cmd += ['--output-format', 'terse', '-j', str(jobs)]
    for h in harnesses:
        cmd += ['--harness', h, '--exact'] if False else ['--harness', h]
    if extra_args:
        cmd += extra_args
    # own process group, so that a timeout kills cargo-kani *and* its cbmc children (no orphans)
    import signal
    proc = subprocess.Popen(cmd, cwd=dst, env=env, stdout=subprocess.PIPE, stderr=subprocess.PIPE, text=True,
                            start_new_session=True)
    try:
        so, se = proc.communicate(timeout=timeout)
        out = so + '\n' + se
        rc = proc.returncode
    except subprocess.TimeoutExpired:
        try:
            os.killpg(proc.pid, signal.SIGKILL)
        except OSError:
            pass
        so, se = proc.communicate()
        out = (so or '') + '\n' + (se or '') + '\nTIMEOUT'
        rc = -9
    wall = time.time() - t0
    log_path = os.path.join(SCRATCH_ROOT, 'kani-%s.log' % tag)
    open(log_path, 'w').write(out)
    # split output per harness (regular: "Checking harness X..."; with -j: "Thread N: Checking harness X...")
    seen = {}
    cur = None
    thread_of = {}
    buf = {}
    for line in out.split('\n'):
        m = re.match(r'^(?:Thread (\d+): )?Checking harness (\S+?)\.\.\.\s*$', line)
        if m:
            th, name = m.group(1), m.group(2)
            buf[name] = []
            if th is not None:
                thread_of[th] = name
                cur = None
            else:
                cur = name
            continue
        m = re.match(r'^Thread (\d+):\s?(.*)$', line)
        if m and m.group(1) in thread_of:
            cur = thread_of[m.group(1)]
            buf[cur].append(m.group(2))
            continue
        if line.startswith('Manual Harness Summary') or line.startswith('Complete - '):
            cur = None
        if cur is not None:
            buf[cur].append(line)
    for k, v in buf.items():
        seen[k] = '\n'.join(v)
    compile_error = ('error: could not compile' in out or 'error[E' in out) and not seen
    for h in harnesses:
        key = None
        for k in seen:
            if k == h or k.endswith('::' + h):
                key = k
        if key is None:
            results[h] = {'status': 'error', 'reason': 'compile error' if compile_error else
                          ('timeout' if rc == -9 else 'harness did not run'), 'log': log_path,
                          'detail': '\n'.join([l for l in out.split('\n') if l.startswith('error')][:10])}
            continue
        txt = seen[key]
        checks = CHECK_RE.findall(txt)
        failed = [{'check': c[1], 'description': c[3], 'location': c[4]} for c in checks if c[2] == 'FAILURE']
        nchecks = len(checks)
        if not checks:
            # terse format
            mm = re.search(r'\*\* (\d+) of (\d+) failed', txt)
            if mm:
                nchecks = int(mm.group(2))
            for fm in re.finditer(r'^Failed Checks: (.*)\n\s*File: (.*)$', txt, re.M):
                failed.append({'check': 'terse', 'description': fm.group(1).strip(), 'location': fm.group(2).strip()})
        m = re.search(r'VERIFICATION:- (\w+)', txt)
        verdict = m.group(1) if m else None
        tm = re.search(r'Verification Time: ([0-9.]+)s', txt)
        res = {'checks': nchecks, 'time_s': float(tm.group(1)) if tm else None, 'log': log_path}
        cm = re.search(r'\*\* (\d+) of (\d+) cover properties satisfied', txt)
        if cm:
            res['covers_satisfied'] = int(cm.group(1)); res['covers_total'] = int(cm.group(2))
        if verdict == 'SUCCESSFUL':
            res['status'] = 'ok'
        elif verdict == 'FAILED':
            # unwinding assertion failures or unsupported constructs are not verdicts
            real = [f for f in failed if 'unwinding assertion' not in f['description']
                    and not f['check'].endswith('.unsupported_construct')
                    and 'is not currently supported by Kani' not in f['description']]
            if failed and not real:
                res['status'] = 'error'
                res['reason'] = 'unwinding bound too small / unsupported construct'
                res['failed'] = failed
            elif not failed:
                res['status'] = 'error'
                res['reason'] = 'FAILED without failed checks (CBMC error?)'
            else:
                res['status'] = 'fail'
                res['failed'] = real
                cv = re.search(r'let concrete_vals: Vec<Vec<u8>> = vec!\[(.*?)\];', txt, re.S)
                if cv:
                    vals = []
                    for vm in re.finditer(r'//\s*(.*?)\n\s*vec!\[([0-9, ]*)\]', cv.group(1)):
                        vals.append({'value': vm.group(1).strip(), 'bytes': [int(x) for x in vm.group(2).split(',') if x.strip()]})
                    res['concrete_vals'] = vals
                    tt = re.search(r'(#\[test\]\s*fn kani_concrete_playback_\w+\(\) \{.*?\n\})', txt, re.S)
                    if tt:
                        res['playback_test'] = tt.group(1)
        else:
            res['status'] = 'error'
            res['reason'] = 'no verdict (timeout/out of memory?)' if rc != 0 else 'no verdict'
        results[h] = res
    for h in results:
        results[h]['wall_s'] = round(wall, 1)
    if os.environ.get('VERIF_KEEP_SCRATCH') != '1':
        shutil.rmtree(dst, ignore_errors=True)
    return results


def playback_vals(repo, harness, tag='pb', timeout=1500):
    """second pass for one failing harness: obtain the concrete counterexample values"""
    r2 = run(repo, [harness], tag, timeout, 1, True)
    return r2.get(harness, {})


def module_of(harness):
    """which harness file defines `fn <harness>`"""
    for src, mods in modules().items():
        for m in mods:
            t = open(os.path.join(VERIF, 'kani', m)).read()
            if re.search(r'\bfn\s+' + re.escape(harness) + r'\s*\(', t):
                return m
    return None


def replay(repo, harness, playback_test, tag='replay', timeout=600):
    """Re-execute the counterexample on the real code (plain execution, no model checker): the
    concrete values recorded by Kani are fed to the same harness body via `cargo kani playback`.
    Returns (reproduced, output_tail)."""
    m = module_of(harness)
    if m is None or not playback_test:
        return False, 'no playback test'
    tm = re.search(r'fn (kani_concrete_playback_\w+)', playback_test)
    dst = prepare(repo, tag, {m: playback_test}, [harness])
    env = dict(os.environ)
    env['CARGO_NET_OFFLINE'] = 'true'
    env['CARGO_TARGET_DIR'] = TARGET_DIR
    env.pop('RUSTUP_TOOLCHAIN', None)
    try:
        p = subprocess.run(['cargo', 'kani', 'playback', '-Z', 'concrete-playback', '--', tm.group(1)],
                           cwd=dst, env=env, capture_output=True, text=True, timeout=timeout)
        out = p.stdout + p.stderr
    except subprocess.TimeoutExpired:
        out = 'TIMEOUT'
    shutil.rmtree(dst, ignore_errors=True)
    reproduced = bool(re.search(r'test result: FAILED|panicked at', out)) and 'could not compile' not in out
    tail = '\n'.join([l for l in out.split('\n') if 'panicked' in l or 'test result' in l or l.startswith('test ')
                      or 'C0' in l or 'C1' in l or 'C2' in l][-12:])
    return reproduced, tail


if __name__ == '__main__':
    import argparse
    ap = argparse.ArgumentParser()
    ap.add_argument('harness', nargs='+')
    ap.add_argument('--repo', default='/repo')
    ap.add_argument('--tag', default='cli')
    ap.add_argument('--timeout', type=int, default=1800)
    ap.add_argument('-j', type=int, default=4)
    a = ap.parse_args()
    r = run(a.repo, a.harness, a.tag, a.timeout, a.j)
    print(json.dumps(r, indent=1))
    sys.exit(0 if all(v['status'] == 'ok' for v in r.values()) else 1)
