#!/bin/bash
# regenerate every claimed property's evidence on the current tree (quick tier), sequentially
cd "$(dirname "$0")/.."
for P in $(python3 -c "import json;print(' '.join(c['property_id'] for c in json.load(open('MANIFEST.json'))['checks']))"); do
  s=$(date +%s)
  out=$(./check $P 2>&1 | grep -v "^KNOWN-FINDING" | tail -1 | cut -c1-170)
  echo "$P exit=$? $(( $(date +%s) - s ))s $out"
done
