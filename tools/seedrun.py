#!/usr/bin/env python3
"""seedrun.py [--kani] [--also=ID,ID] [ids...] — apply each seeded change to a SCRATCH COPY of the current /repo tree
(never to /repo itself: other work may be reading it), run the checks of the property it breaks with
`--repo <copy>`, and record which obligations fail in seeded/<id>/meta.json."""
import glob
import json
import os
import re
import shutil
import subprocess
import sys
import tempfile

VERIF = os.path.abspath(os.path.join(os.path.dirname(__file__), '..'))
args = [a for a in sys.argv[1:] if not a.startswith('--')]
kani = '--kani' in sys.argv
thorough = '--thorough' in sys.argv
also = [a[7:] for a in sys.argv if a.startswith('--also=')]
seeds = sorted(glob.glob(os.path.join(VERIF, 'seeded', '*', 'patch.diff')))
ROOT = '/tmp/verif-scratch-seed'
os.makedirs(ROOT, exist_ok=True)
for pd in seeds:
    d = os.path.dirname(pd)
    sid = os.path.basename(d)
    if args and sid not in args:
        continue
    meta = json.load(open(os.path.join(d, 'meta.json')))
    tmp = tempfile.mkdtemp(prefix='seed-%s-' % sid, dir=ROOT)
    try:
        shutil.copytree('/repo/src', os.path.join(tmp, 'src'))
        for f in ('Cargo.toml', 'Cargo.lock'):
            shutil.copy(os.path.join('/repo', f), tmp)
        ap = subprocess.run(['patch', '-p1', '-s', '-d', tmp, '-i', pd], capture_output=True, text=True)
        if ap.returncode != 0:
            print(sid, 'patch does not apply:', (ap.stdout + ap.stderr)[:300], flush=True)
            continue
        res = {}
        for prop in [meta['property']] + (also[0].split(',') if also else []):
            cmd = [os.path.join(VERIF, 'check'), prop, '--repo', tmp, '--evidence-dir', os.path.join(tmp, 'ev')]
            if not kani:
                cmd.append('--no-kani')
            if thorough:
                cmd += ['--tier', 'thorough', '--no-selftest']
            p = subprocess.run(cmd, capture_output=True, text=True, cwd=VERIF,
                               env=dict(os.environ, VERIF_SCRATCH=os.path.join(tmp, 'scratch')))
            obs = re.findall(r'^FAILED-OBLIGATION: (\S+)', p.stdout, re.M)
            res[prop + ('+kani' if kani else '') + ('+thorough' if thorough else '')] = {'exit': p.returncode, 'failed_obligations': obs,
                                                     'last': p.stdout.strip().split('\n')[-1][:300]}
            print(sid, prop, 'exit', p.returncode, obs[:3], flush=True)
        if not isinstance(meta.get('detected_by'), dict):
            meta['detected_by'] = {}
        meta['detected_by'].update(res)
        meta['detected'] = any(r.get('exit') == 1 for r in meta['detected_by'].values())
        json.dump(meta, open(os.path.join(d, 'meta.json'), 'w'), indent=1)
    finally:
        shutil.rmtree(tmp, ignore_errors=True)
