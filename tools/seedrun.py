#!/usr/bin/env python3
"""seedrun.py [--kani] [ids...] — apply each seeded change to /repo, run the checks of the property it breaks
(and optionally others), record which obligations fail, undo the change."""
import json, os, re, subprocess, sys, glob
VERIF = os.path.abspath(os.path.join(os.path.dirname(__file__), '..'))
args = [a for a in sys.argv[1:] if not a.startswith('--')]
kani = '--kani' in sys.argv
also = [a[7:] for a in sys.argv if a.startswith('--also=')]
seeds = sorted(glob.glob(os.path.join(VERIF, 'seeded', '*', 'patch.diff')))
for pd in seeds:
    d = os.path.dirname(pd)
    sid = os.path.basename(d)
    if args and sid not in args:
        continue
    meta = json.load(open(os.path.join(d, 'meta.json')))
    assert subprocess.run(['git', '-C', '/repo', 'status', '--porcelain', '--untracked-files=no'], capture_output=True, text=True).stdout.strip() == '', '/repo not clean'
    subprocess.run(['git', '-C', '/repo', 'apply', pd], check=True)
    try:
        res = {}
        for prop in [meta['property']] + (also[0].split(',') if also else []):
            cmd = [os.path.join(VERIF, 'check'), prop] + ([] if kani else ['--no-kani'])
            p = subprocess.run(cmd, capture_output=True, text=True, cwd=VERIF,
                               env=dict(os.environ, VERIF_SCRATCH='/tmp/verif-scratch-seed'))
            obs = re.findall(r'^FAILED-OBLIGATION: (\S+)', p.stdout, re.M)
            res[prop] = {'exit': p.returncode, 'failed_obligations': obs,
                         'last': p.stdout.strip().split('\n')[-1][:300]}
            print(sid, prop, 'exit', p.returncode, obs[:3], flush=True)
        meta['detected_by'] = res
        meta['detected'] = any(r['exit'] == 1 for r in res.values())
        json.dump(meta, open(os.path.join(d, 'meta.json'), 'w'), indent=1)
    finally:
        subprocess.run(['git', '-C', '/repo', 'checkout', '--', '.'], check=True)
