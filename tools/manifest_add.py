#!/usr/bin/env python3
"""manifest_add.py <ID> <category> <design_ref> <<< JSON {"text":..., "note":..., "technique":...}  — add/replace a check entry"""
import json, sys
pid, cat, ref = sys.argv[1:4]
d = json.load(sys.stdin)
m = json.load(open('/verif/MANIFEST.json'))
m['checks'] = [c for c in m['checks'] if c['property_id'] != pid]
m['checks'].append({"property_id": pid, "quick_cmd": "./check %s --tier quick" % pid, "thorough_cmd": "./check %s --tier thorough" % pid,
    "evidence_file": "/verif/evidence/%s.json" % pid, "replay_cmd_template": "./check %s --replay {path}" % pid,
    "engine": "verus-extract + kani-real",
    "level_claimed": {"category": cat, "text": d['text'], "design_ref": ref}, "level_note": d['note'],
    "technique": d.get('technique', "contract-based deductive verification (Verus on mechanically extracted real functions) + Kani harnesses on the real code")})
m['checks'].sort(key=lambda c: c['property_id'])
claimed = {c['property_id'] for c in m['checks']}
m['not_applicable'] = [x for x in m.get('not_applicable', []) if x['property_id'] not in claimed]
for e in m['engines']:
    e['serves_properties'] = sorted(claimed)
json.dump(m, open('/verif/MANIFEST.json', 'w'), indent=1)
print('claimed:', sorted(claimed))
