#!/usr/bin/env python3
"""check.py — decide one property on the current /repo working tree.

  ./check <ID> [--tier quick|thorough] [--repo DIR]
  ./check <ID> --replay <replay.json>

exit 0: every obligation generated from the current source was discharged
exit 1: `VIOLATION property=<ID> replay=<path>` (a named obligation failed)
exit 2: no verdict (lost anchor, unsupported construct, resource limit, tool error)
"""
import argparse
import hashlib
import json
import os
import re
import shutil
import subprocess
import sys
import time
from concurrent.futures import ThreadPoolExecutor

HERE = os.path.dirname(os.path.abspath(__file__))
VERIF = os.path.abspath(os.path.join(HERE, '..'))
sys.path.insert(0, HERE)
import extract  # noqa: E402
import kanirun  # noqa: E402
import rsx  # noqa: E402
from props import PROPS, STANDING_ASSUMPTIONS  # noqa: E402

SCRATCH_ROOT = os.environ.get('VERIF_SCRATCH', '/tmp/verif-scratch')


class NoVerdict(Exception):
    pass


# ---------------------------------------------------------------------------
# Verus
# ---------------------------------------------------------------------------
ERR_RE = re.compile(r'^(error|note)(?:\[[A-Z0-9]+\])?: (.*)$')
LOC_RE = re.compile(r'^\s*--> (.*?):(\d+):(\d+)')


def parse_verus_stderr(err):
    """-> list of {msg, line, text} for `error:` diagnostics"""
    out = []
    lines = err.split('\n')
    i = 0
    while i < len(lines):
        m = ERR_RE.match(lines[i])
        if m and m.group(1) == 'error':
            msg = m.group(2)
            line = None
            snippet = []
            j = i + 1
            while j < len(lines) and not ERR_RE.match(lines[j]) and not lines[j].startswith('warning'):
                lm = LOC_RE.match(lines[j])
                if lm and line is None:
                    line = int(lm.group(2))
                sm = re.match(r'^\s*(\d+)\s*\|\s?(.*)$', lines[j])
                if sm and len(snippet) < 6:
                    snippet.append(sm.group(2).rstrip())
                j += 1
            if not msg.startswith('aborting due to'):
                out.append({'msg': msg, 'line': line, 'text': ' '.join(' '.join(snippet).split())[:400]})
            i = j
        else:
            i += 1
    return out


def fn_at_line(gen_text_lines, info, line):
    """map a generated-file line to (function name, props or None)"""
    if line is None:
        return None, None
    for m in info['map']:
        if m['gen_start'] <= line <= m['gen_end']:
            return m['selector'], m['props']
    # hand-written template function / lemma: nearest preceding `fn name`
    for k in range(min(line, len(gen_text_lines)) - 1, -1, -1):
        mm = re.search(r'\bfn\s+([A-Za-z_0-9]+)', gen_text_lines[k])
        if mm:
            name = mm.group(1)
            return name, info.get('lemmas', {}).get(name)
    return None, None


VERIF_FAIL_MSGS = ('postcondition not satisfied', 'precondition not satisfied', 'invariant not satisfied',
                   'assertion failed', 'possible arithmetic underflow/overflow', 'possible division by zero',
                   'loop invariant', 'decreases not satisfied', 'possible bit shift underflow/overflow',
                   'index out of bounds', 'unreachable', 'could not prove termination',
                   'recommendation not met', 'possible truncation', 'assertion not satisfied',
                   'failed precondition', 'cannot show invariant', 'constructed value may fail to meet its declared type invariant',
                   'may be out of range', 'post-condition of closure', 'pre-condition of closure', 'unable to prove',
                   'not satisfied', 'call_requires', 'call_ensures')
RESOURCE_MSGS = ('resource limit', 'rlimit', 'timed out', 'timeout', 'solver canceled')


def run_verus(unit, repo, outdir, vacuity=False, rlimit=None):
    """Verify one unit.  If the generated file does not compile because of constructs inside extracted function bodies
    (a change to the code started using something the verifier or the unit's model does not support), those functions
    are isolated - contract kept as a stub, body dropped, reported NO-VERDICT - and the rest of the unit is verified."""
    stub_out = set()
    consts = set()
    helpers = set()
    for _round in range(7):
        res = run_verus_once(unit, repo, outdir, vacuity, rlimit, stub_out, sorted(consts), sorted(helpers))
        if not res['compile_error']:
            break
        # a helper function the template does not know (a change extracted lines into it): inline it mechanically and retry
        newh = set()
        for e in res['errors']:
            for rx in (r'no method named `(\w+)` found', r'cannot find function `(\w+)` in this scope',
                       r'no function or associated item named `(\w+)` found'):
                m = re.search(rx, e['msg'])
                if m and m.group(1) not in helpers:
                    newh.add(m.group(1))
        if newh:
            helpers |= newh
            continue
        # a named constant the change introduced: import its definition mechanically and retry
        newc = set()
        for e in res['errors']:
            m = re.search(r'cannot find value `([A-Z][A-Z0-9_]*)` in this scope', e['msg'])
            if m and m.group(1) not in consts:
                newc.add(m.group(1))
        if newc:
            consts |= newc
            continue
        culprits = set()
        outside = False
        for e in res['errors']:
            if e.get('class') == 'verification':
                continue
            hit = [m for m in res['info']['map'] if e['line'] is not None and m['gen_start'] <= e['line'] <= m['gen_end'] and not m.get('stubbed')]
            if hit:
                culprits.add(hit[0]['selector'])
            elif e.get('level', 'error') == 'error':
                outside = True
        if outside or not culprits or culprits <= stub_out:
            break
        res['first_errors'] = res['errors']
        stub_out |= culprits
    res['isolated'] = sorted(stub_out)
    return res


def run_verus_once(unit, repo, outdir, vacuity=False, rlimit=None, stub_out=None, consts=None, helpers=None):
    info = extract.build(unit, repo, os.path.join(VERIF, 'units'), outdir, vacuity=vacuity, stub_out=stub_out, extra_consts=consts,
                         inline_helpers=helpers)
    gen = info['generated']
    cmd = ['verus', gen, '--output-json', '--time-expanded', '--multiple-errors', '20']
    if rlimit:
        cmd += ['--rlimit', str(rlimit)]
    t0 = time.time()
    p = subprocess.run(cmd, capture_output=True, text=True, timeout=1800)
    wall = time.time() - t0
    try:
        # stdout may contain the JSON document only
        js = json.loads(p.stdout[p.stdout.index('{'):])
    except Exception:
        js = None
    res = {'unit': unit, 'info': info, 'wall_s': round(wall, 2), 'cmd': ' '.join(cmd), 'stderr': p.stderr,
           'functions': {}, 'errors': [], 'compile_error': False, 'verified': 0, 'failed': 0, 'smt_ms': 0}
    errs = parse_verus_stderr(p.stderr)
    if js is None or 'verification-results' not in js:
        res['compile_error'] = True
        res['errors'] = errs
        return res
    vr = js['verification-results']
    res['verified'] = vr.get('verified', 0)
    res['failed'] = vr.get('errors', 0)
    if vr.get('encountered-vir-error'):
        res['compile_error'] = True
    try:
        for mod in js['times-ms']['smt']['smt-run-module-times']:
            for f in mod.get('function-breakdown', []):
                name = f['function'].split('::', 1)[1] if '::' in f['function'] else f['function']
                res['functions'][name] = {'success': f['success'], 'time_us': f['time-micros'], 'rlimit': f['rlimit'],
                                          'mode': f.get('mode:', f.get('mode', ''))}
        res['smt_ms'] = js['times-ms']['smt']['smt-run']
    except (KeyError, TypeError):
        pass
    gen_lines = open(gen).read().split('\n')
    for e in errs:
        fn, props = fn_at_line(gen_lines, info, e['line'])
        e['function'] = fn
        e['props'] = props
        low = e['msg'].lower()
        if any(k in low for k in RESOURCE_MSGS):
            e['class'] = 'resource'
        elif any(k in low for k in VERIF_FAIL_MSGS):
            e['class'] = 'verification'
        else:
            e['class'] = 'other'
    res['errors'] = errs
    if vr.get('errors', 0) == 0 and not vr.get('success', False) and not errs:
        res['compile_error'] = True
    if any(e['class'] == 'other' for e in errs) and res['verified'] == 0 and res['failed'] == 0:
        res['compile_error'] = True
    return res


# ---------------------------------------------------------------------------
def obligation_name(unit, e):
    kind = re.sub(r'[^a-z]+', '-', e['msg'].lower()).strip('-')[:40]
    h = hashlib.sha1(e['text'].encode()).hexdigest()[:6]
    return '%s::%s::%s@%s' % (unit, e['function'] or '?', kind, h)


def load_findings():
    p = os.path.join(VERIF, 'known_findings.json')
    if not os.path.exists(p):
        return []
    return json.load(open(p)).get('findings', [])


def finding_for(findings, pid, ob_kind, ob_id, also=()):
    """a listed, unfixed finding that covers this failed obligation (`also`: the properties a dependency unit's
    obligations were proved for - a finding listed under one of them covers the same obligation here)"""
    for f in findings:
        if f.get('status') != 'known' or (f.get('property') != pid and f.get('property') not in also):
            continue
        if f.get('kind') == ob_kind and re.search(f.get('match', '$^'), ob_id):
            return f
    return None


def main():
    ap = argparse.ArgumentParser()
    ap.add_argument('pid')
    ap.add_argument('--tier', default=os.environ.get('VERIF_TIER', 'quick'))
    ap.add_argument('--repo', default='/repo')
    ap.add_argument('--replay')
    ap.add_argument('--no-kani', action='store_true')
    ap.add_argument('--no-selftest', action='store_true')
    ap.add_argument('--evidence-dir', default=os.path.join(VERIF, 'evidence'))
    a = ap.parse_args()
    pid = a.pid
    if pid not in PROPS:
        print('unknown or unclaimed property ' + pid)
        return 2
    if a.replay:
        return do_replay(pid, a.replay, a.repo)
    cfg = PROPS[pid]
    tier = 'thorough' if a.tier == 'thorough' else 'quick'
    seed = int(os.environ.get('VERIF_SEED', '0') or 0)
    t0 = time.time()
    outdir = os.path.join(SCRATCH_ROOT, 'units-' + pid)
    shutil.rmtree(outdir, ignore_errors=True)
    os.makedirs(outdir, exist_ok=True)

    violations = []     # dicts: obligation, backend, detail
    noverdict = []
    notes = []
    verus_results = []
    twin_results = []
    units = list(cfg.get('units', []))
    own_units = list(units)
    # dependency obligations: functions of another unit whose PROVED contracts this property's units assume as stubs
    # (e.g. the virtqueue contracts below a device driver).  They are checked with the tags of the properties they were proved for.
    accept = {u: {pid} for u in units}
    for d in cfg.get('dep_units', []):
        if d['unit'] not in accept:
            units.append(d['unit'])
            accept[d['unit']] = set()
        accept[d['unit']] |= set(d['props'])
    harnesses = list(cfg.get('kani_quick', []))
    if tier == 'thorough':
        harnesses += [h for h in cfg.get('kani_thorough', []) if h not in harnesses]
    if a.no_kani:
        harnesses = []

    if tier == 'thorough':
        os.environ.setdefault('VERIF_KANI_AS', '50000000000')
    kani_res = {}
    with ThreadPoolExecutor(max_workers=8) as ex:
        futs = []
        for u in units:
            futs.append(('verus', u, ex.submit(safe, run_verus, u, a.repo, outdir, False, 30)))
            if u in own_units:
                futs.append(('twin', u, ex.submit(safe, run_verus, u, a.repo, outdir, True, 2)))
        kfut = None
        if harnesses:
            kfut = ex.submit(safe, kanirun.run_cached, a.repo, harnesses, pid,
                             cfg.get('kani_timeout', 1500) * (3 if tier == 'thorough' else 1),
                             1 if tier == 'thorough' else cfg.get('kani_jobs', 6))
        for kind, u, f in futs:
            r = f.result()
            if isinstance(r, Exception):
                noverdict.append('%s unit %s: %s' % (kind, u, r))
                continue
            (verus_results if kind == 'verus' else twin_results).append(r)
        if kfut is not None:
            r = kfut.result()
            if isinstance(r, Exception):
                noverdict.append('kani: %s' % r)
            else:
                kani_res = r

    # ---- Verus verdicts
    fn_total = 0
    fn_ok = 0
    smt_ms = 0
    contracted = []
    assumptions = set()
    samples = []
    census = []
    for r in verus_results:
        u = r['unit']
        info = r['info']
        smt_ms += r['smt_ms']
        for asm in info['assumptions']:
            assumptions.add('%s: %s' % (u, asm))
        acc = accept[u]
        census += [dict(c, unit=u) for c in info['census'] if acc & set(c['label'].split(':')[0].split(','))]
        if r['compile_error']:
            msgs = '; '.join('%s (line %s)' % (e['msg'], e['line']) for e in r['errors'][:5])
            noverdict.append('unit %s does not compile under Verus (unsupported construct after extraction?): %s' % (u, msgs))
            continue
        mine = lambda props, acc=acc: props is None or props == [] or bool(acc & set(props))  # noqa: E731
        dep = u not in own_units
        # functions whose bodies could not be brought under the verifier in this tree (contract kept as a stub)
        reasons = dict(info.get('stubbed', []))
        for m in info['map']:
            if m.get('stubbed') and mine(m['props']):
                noverdict.append('unit %s: %s (%s:%d) is NOT VERIFIED in this tree: %s; its contract is assumed so that the rest of '
                                 'the unit gets a verdict' % (u, m['selector'], m['file'], m['src_line'], reasons.get(m['selector'], '?')[:200]))
        # functions under contract for this property
        for m in info['map']:
            if m.get('stubbed'):
                continue
            if mine(m['props']):
                contracted.append('%s (%s:%d)%s' % (m['selector'], m['file'], m['src_line'],
                                                    ' [dependency: contract assumed by this property\'s units]' if dep else ''))
        for name, f in r['functions'].items():
            base = name.split('::')[-1]
            props = None
            for m in info['map']:
                if m['name'] == base and (m['selector'].split('::')[0] in name or '::' not in m['selector']):
                    props = m['props']
            if props is None:
                props = info['lemmas'].get(base)
            if not mine(props):
                continue
            fn_total += 1
            if f['success']:
                fn_ok += 1
                if len(samples) < 6 and f['mode'] == 'exec':
                    samples.append({'backend': 'verus', 'obligation': '%s::%s (all clauses)' % (u, name),
                                    'time_us': f['time_us'], 'rlimit': f['rlimit']})
        for e in r['errors']:
            if not mine(e.get('props')):
                continue
            if e['class'] == 'resource':
                noverdict.append('unit %s: %s in %s' % (u, e['msg'], e['function']))
            elif e['class'] == 'verification':
                violations.append({'obligation': obligation_name(u, e), 'backend': 'verus', 'kind': 'verus',
                                   'message': e['msg'] + (' [dependency obligation: this property\'s units assume the contract of this function]' if dep else ''),
                                   'clause': e['text'], 'function': e['function'], 'unit': u,
                                   'generated_line': e['line'], 'unit_file': info['generated']})
            else:
                noverdict.append('unit %s: %s (line %s)' % (u, e['msg'], e['line']))
    # ---- vacuity
    vac_checked = 0
    for r in twin_results:
        if r['compile_error']:
            noverdict.append('vacuity twin of unit %s does not compile' % r['unit'])
            continue
        for tw in r['info']['twins']:
            hit = [f for n, f in r['functions'].items() if n.split('::')[-1] == tw]
            if not hit:
                continue
            vac_checked += 1
            if hit[0]['success']:
                noverdict.append('VACUOUS contract: %s::%s verifies `ensures false` (contradictory precondition or '
                                 'assumption)' % (r['unit'], tw[:-5]))
    # ---- census obligations
    for c in census:
        fn_total += 1
        if c.get('ok', c['found'] == c['expected']):
            fn_ok += 1
        elif c.get('soft'):
            noverdict.append('unit %s: structural assumption %s no longer matches the source (`%s` occurs %d times in %s, the unit '
                             'was written for %s %d): the proof for this property cannot be trusted as it stands'
                             % (c['unit'], c['label'], c['pattern'], c['found'], c['file'], c.get('op', '=='), c['expected']))
        else:
            violations.append({'obligation': '%s::census::%s' % (c['unit'], c['label']), 'backend': 'extractor',
                               'kind': 'census', 'message': 'call-site census changed: `%s` occurs %d times in %s, contract assumes %d'
                               % (c['pattern'], c['found'], c['file'], c['expected']), 'clause': c['pattern'], 'function': c['label']})
    # ---- a harness that ended without a verdict because CBMC itself died (memory pressure from other jobs on the machine)
    # is run once more, alone
    if not a.no_kani:
        again = [h for h in harnesses if (kani_res.get(h) or {}).get('status') not in ('ok', 'fail')
                 and 'without failed checks' in str((kani_res.get(h) or {}).get('reason', '')) + str((kani_res.get(h) or {}).get('detail', ''))]
        for h in again[:3]:
            r2 = safe(kanirun.run_cached, a.repo, [h], pid + '-retry', cfg.get('kani_timeout', 1500) * 3, 1)
            if not isinstance(r2, Exception) and h in r2:
                kani_res[h] = r2[h]
                notes.append('kani harness %s re-run alone after a CBMC failure without verdict: %s' % (h, r2[h].get('status')))
    # ---- fallback: a function the deductive verifier could not follow in this tree (isolated above) is handed to the bounded
    # Kani harnesses that exercise it on the real code, even in the quick tier (cfg 'fallback_kani': selector -> harnesses)
    if not a.no_kani:
        extra = []
        for r in verus_results:
            for m in r['info']['map']:
                if m.get('stubbed'):
                    for h in cfg.get('fallback_kani', {}).get(m['selector'], []):
                        if h not in harnesses and h not in extra:
                            extra.append(h)
        if extra:
            notes.append('fallback Kani harnesses for functions not verified in this tree: ' + ', '.join(extra))
            r2 = safe(kanirun.run_cached, a.repo, extra, pid + '-fb', cfg.get('kani_timeout', 1500) * 3, 1)
            if isinstance(r2, Exception):
                noverdict.append('kani (fallback): %s' % r2)
            else:
                kani_res.update(r2)
                harnesses += extra
    # ---- Kani verdicts
    kani_checks = 0
    kani_ok = 0
    kani_time = 0.0
    for h in harnesses:
        r = kani_res.get(h)
        if r is None:
            continue
        kani_time += r.get('time_s') or 0
        if r['status'] == 'ok':
            kani_checks += r.get('checks', 0)
            kani_ok += r.get('checks', 0)
            if len(samples) < 10:
                samples.append({'backend': 'kani', 'harness': h, 'checks': r.get('checks'), 'time_s': r.get('time_s')})
        elif r['status'] == 'fail':
            kani_checks += r.get('checks', 0)
            kani_ok += r.get('checks', 0) - len(r['failed'])
            seen_desc = set()
            for fc in r['failed']:
                if fc['description'] in seen_desc:
                    continue
                seen_desc.add(fc['description'])
                violations.append({'obligation': 'kani::%s::%s' % (h, hashlib.sha1(fc['description'].encode()).hexdigest()[:6]),
                                   'backend': 'kani', 'kind': 'kani', 'harness': h, 'message': fc['description'],
                                   'failed_checks': [fc], 'concrete_vals': r.get('concrete_vals'),
                                   'playback_test': r.get('playback_test')})
        else:
            noverdict.append('kani harness %s: %s %s' % (h, r.get('reason'), r.get('detail', '')[:300]))

    # ---- known findings
    findings = load_findings()
    reported = []
    known_lines = []
    for v in violations:
        f = finding_for(findings, pid, v['kind'], v['obligation'] + ' ' + v.get('message', '') + ' ' + v.get('clause', ''),
                        also=accept.get(v.get('unit'), ()))
        if f is not None:
            known_lines.append('KNOWN-FINDING: property=%s %s' % (pid, f['what']))
            v['known_finding'] = f['id']
        else:
            reported.append(v)
    for ln in sorted(set(known_lines)):
        print(ln)

    covers = sum((kani_res.get(h) or {}).get('covers_satisfied', 0) for h in harnesses)
    wall = time.time() - t0
    # a function with several failing clauses is one undischarged function query; every failed Kani check counts
    n_known = len(set((v['backend'], v.get('function') if v['backend'] == 'verus' else v['obligation'])
                      for v in violations if v.get('known_finding')))
    # obligations covered by a listed known finding are reported separately, not as discharged
    obligations = fn_total + kani_checks - n_known
    discharged = fn_ok + kani_ok
    level = cfg['level']
    ev = {
        'property_id': pid, 'tier': tier, 'seed': seed, 'level': level,
        'coverage': {
            'obligations': obligations, 'discharged': discharged,
            'checker_cmd': '; '.join([r['cmd'] for r in verus_results] +
                                     (['cargo kani --harness ' + ' --harness '.join(harnesses)] if harnesses else [])),
            'trusted_base': sorted(assumptions) + STANDING_ASSUMPTIONS + cfg.get('assumptions', []),
            'explanation': cfg.get('explanation', ''),
            'verus': {'units': [r['unit'] for r in verus_results], 'functions_checked': fn_total - len(census),
                      'functions_verified': fn_ok - sum(1 for c in census if c.get('ok', c['found'] == c['expected'])),
                      'smt_time_ms': smt_ms, 'vacuity_twins_rejected': vac_checked,
                      'wall_s': [r['wall_s'] for r in verus_results]},
            'kani': {'harnesses': {h: {k: kani_res[h].get(k) for k in ('status', 'checks', 'time_s')} for h in harnesses if h in kani_res},
                     'checks': kani_checks, 'checks_passed': kani_ok, 'cbmc_time_s': round(kani_time, 1),
                     'bounded': cfg.get('kani_bounds', {})},
            'census': census,
            'undischarged_known_findings': sorted(set(v['known_finding'] + ': ' + v['obligation'] for v in violations if v.get('known_finding'))),
            'functions_under_contract': sorted(set(contracted)),
            'samples': samples or [{'note': 'no obligation discharged'}],
            'evaluations': max(obligations, 1) if level != 'fault_enumeration' else max(covers, 1),
            'distinct_nontrivial': max(fn_total + len([h for h in harnesses if h in kani_res]), 2) if level != 'fault_enumeration' else max(covers, 2),
            'fault_points_reached': covers,
            'rule': ('fault_enumeration: one evaluation = one (driver, fault point) pair shown reachable by a kani::cover in this run '
                     '(fault point = k-th dma_alloc fails / no failure / failure for another reason); all are distinct and non-trivial. ' if level == 'fault_enumeration' else '') +
                    'one evaluation = one proof obligation bundle: a Verus function query (all requires/ensures/'
                    'invariant/overflow/bounds clauses of one extracted function) or one CBMC check of a Kani harness; '
                    'distinct_nontrivial counts distinct functions/harnesses, all of which have non-trivial bodies',
            'rewrite_rule_matches': {r['unit']: r['info']['rules'] for r in verus_results},
            'no_verdict': noverdict,
        },
        'assumptions': sorted(assumptions) + STANDING_ASSUMPTIONS + cfg.get('assumptions', []),
        'wall_s': round(wall, 1),
        'violations': len(reported),
    }
    if tier == 'thorough' and not a.no_selftest:
        ev['coverage']['thorough_extras'] = thorough_extras(pid, a.repo, own_units, outdir)
    os.makedirs(a.evidence_dir, exist_ok=True)
    # keep a copy of the generated units next to the evidence (ignored by git)
    udir = os.path.join(a.evidence_dir, 'units')
    os.makedirs(udir, exist_ok=True)
    for r in verus_results:
        try:
            shutil.copy(r['info']['generated'], udir)
        except OSError:
            pass
    json.dump(ev, open(os.path.join(a.evidence_dir, pid + '.json'), 'w'), indent=1)

    if reported:
        # replay file: names the failed obligations, carries the verifier output and, when Kani found one,
        # the concrete failing input, replayed on the real code.
        rp = write_replay(pid, reported, a.repo, verus_results)
        suffix = '' if rp['has_input'] else ' no-failing-input-found'
        for v in reported[:10]:
            print('FAILED-OBLIGATION: %s [%s] %s' % (v['obligation'], v['backend'], v['message'][:200]))
        print('VIOLATION property=%s replay=%s%s' % (pid, rp['path'], suffix))
        return 1
    if noverdict:
        for n in noverdict:
            print('NO-VERDICT: ' + n)
        return 2
    print('OK property=%s tier=%s obligations=%d discharged=%d (verus functions %d, kani checks %d) wall=%.1fs'
          % (pid, tier, obligations, discharged, fn_total, kani_checks, wall))
    return 0


def thorough_extras(pid, repo, units, outdir):
    """thorough tier only: (a) brittleness probe: every unit again with half the solver budget; (b) mutation self-test:
    every confirmed seeded change of this property (seeded/<ID>-*/patch.diff) applied to a scratch copy of the current
    tree must make the Verus part of this check report a violation."""
    import glob
    import tempfile
    out = {'brittle_functions': [], 'selftest': {}}
    for u in units:
        r = safe(run_verus, u, repo, os.path.join(outdir, 'half'), False, 15)
        if isinstance(r, Exception) or r['compile_error']:
            continue
        out['brittle_functions'] += ['%s::%s' % (u, n) for n, f in r['functions'].items() if not f['success']]
    for pd in sorted(glob.glob(os.path.join(VERIF, 'seeded', pid + '-*', 'patch.diff'))):
        sid = os.path.basename(os.path.dirname(pd))
        tmp = tempfile.mkdtemp(prefix='verif-selftest-', dir=SCRATCH_ROOT)
        try:
            shutil.copytree(os.path.join(repo, 'src'), os.path.join(tmp, 'src'))
            for f in ('Cargo.toml', 'Cargo.lock'):
                if os.path.exists(os.path.join(repo, f)):
                    shutil.copy(os.path.join(repo, f), tmp)
            ap = subprocess.run(['git', 'apply', '--unsafe-paths', '--directory=' + tmp, pd], capture_output=True, text=True, cwd='/')
            if ap.returncode != 0:
                ap = subprocess.run(['patch', '-p1', '-s', '-d', tmp, '-i', pd], capture_output=True, text=True)
            if ap.returncode != 0:
                out['selftest'][sid] = 'patch does not apply to the current tree (skipped)'
                continue
            p = subprocess.run([sys.executable, os.path.abspath(__file__), pid, '--no-kani', '--repo', tmp,
                                '--evidence-dir', os.path.join(tmp, 'ev')], capture_output=True, text=True,
                               env=dict(os.environ, VERIF_SCRATCH=os.path.join(tmp, 'scratch'), VERIF_TIER='quick'))
            out['selftest'][sid] = {0: 'NOT detected by the Verus part', 1: 'detected', 2: 'no verdict'}.get(p.returncode, str(p.returncode))
        finally:
            shutil.rmtree(tmp, ignore_errors=True)
    # (c) false-alarm self-test: every behaviour-preserving change of this property (harmless/<ID>-H*/patch.diff) applied to a
    # scratch copy must NOT make the Verus part report a violation (no verdict is tolerated)
    out['harmless'] = {}
    for pd in sorted(glob.glob(os.path.join(VERIF, 'harmless', pid + '-*', 'patch.diff'))):
        hid = os.path.basename(os.path.dirname(pd))
        tmp = tempfile.mkdtemp(prefix='verif-harmless-', dir=SCRATCH_ROOT)
        try:
            shutil.copytree(os.path.join(repo, 'src'), os.path.join(tmp, 'src'))
            for f in ('Cargo.toml', 'Cargo.lock'):
                if os.path.exists(os.path.join(repo, f)):
                    shutil.copy(os.path.join(repo, f), tmp)
            ap = subprocess.run(['patch', '-p1', '-s', '-d', tmp, '-i', pd], capture_output=True, text=True)
            if ap.returncode != 0:
                out['harmless'][hid] = 'patch does not apply to the current tree (skipped)'
                continue
            p = subprocess.run([sys.executable, os.path.abspath(__file__), pid, '--no-kani', '--repo', tmp,
                                '--evidence-dir', os.path.join(tmp, 'ev')], capture_output=True, text=True,
                               env=dict(os.environ, VERIF_SCRATCH=os.path.join(tmp, 'scratch'), VERIF_TIER='quick'))
            out['harmless'][hid] = {0: 'ok', 1: 'FALSE ALARM', 2: 'no verdict'}.get(p.returncode, str(p.returncode))
        finally:
            shutil.rmtree(tmp, ignore_errors=True)
    return out


def safe(f, *args):
    try:
        return f(*args)
    except (extract.ExtractError, rsx.LexError) as e:
        return NoVerdict('extraction: %s' % e)
    except subprocess.TimeoutExpired as e:
        return NoVerdict('timeout: %s' % e)
    except Exception as e:  # tool failure is never an alarm
        import traceback
        return NoVerdict('internal error: %s\n%s' % (e, traceback.format_exc()[-600:]))


def write_replay(pid, reported, repo, verus_results):
    os.makedirs(os.path.join(VERIF, 'replays'), exist_ok=True)
    key = hashlib.sha1(json.dumps([v['obligation'] for v in reported]).encode()).hexdigest()[:10]
    path = os.path.join(VERIF, 'replays', '%s-%s.json' % (pid, key))
    has_input = False
    out = {'property': pid, 'repo': repo, 'obligations': []}
    for v in reported:
        o = {k: v.get(k) for k in ('obligation', 'backend', 'message', 'clause', 'function', 'harness',
                                   'failed_checks', 'concrete_vals', 'playback_test')}
        if v['backend'] == 'kani' and not v.get('playback_test'):
            # second Kani pass (concrete playback) only for violations that are actually reported
            r2 = kanirun.playback_vals(repo, v['harness'], tag='pb-' + pid)
            v['playback_test'] = r2.get('playback_test')
            v['concrete_vals'] = r2.get('concrete_vals')
            o['playback_test'] = v['playback_test']
            o['concrete_vals'] = v['concrete_vals']
        if v['backend'] == 'kani' and v.get('playback_test'):
            ok, tail = kanirun.replay(repo, v['harness'], v['playback_test'], tag='replay-' + pid)
            o['replayed_on_real_code'] = ok
            o['replay_output'] = tail
            has_input = has_input or ok
        if v['backend'] == 'verus':
            for r in verus_results:
                if r['info']['generated'] == v.get('unit_file'):
                    # verifier output for this obligation
                    o['verifier_output'] = extract_block(r['stderr'], v.get('generated_line'))
        out['obligations'].append(o)
    out['failing_input_found'] = has_input
    json.dump(out, open(path, 'w'), indent=1)
    return {'path': path, 'has_input': has_input}


def extract_block(stderr, line):
    blocks = re.split(r'\n(?=error)', stderr)
    for b in blocks:
        if line is not None and re.search(r':%d:\d+' % line, b):
            return b[:3000]
    return stderr[:1500]


def do_replay(pid, path, repo):
    rp = json.load(open(path))
    any_fail = False
    for o in rp['obligations']:
        if o.get('playback_test'):
            ok, tail = kanirun.replay(repo, o['harness'], o['playback_test'], tag='replay-' + pid)
            print('replay %s: %s\n%s' % (o['obligation'], 'REPRODUCED' if ok else 'not reproduced', tail))
            any_fail = any_fail or ok
        else:
            print('obligation %s [%s] has no concrete input; verifier output:\n%s'
                  % (o['obligation'], o['backend'], (o.get('verifier_output') or o.get('message') or '')[:1500]))
    if any_fail:
        print('VIOLATION property=%s replay=%s' % (pid, path))
        return 1
    return 0


if __name__ == '__main__':
    sys.exit(main())
