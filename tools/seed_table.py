#!/usr/bin/env python3
"""prints the markdown table 'which checks catch which seeded changes' from seeded/*/meta.json"""
import glob, json, os
rows = []
for p in sorted(glob.glob(os.path.join(os.path.dirname(__file__), '..', 'seeded', '*', 'meta.json'))):
    m = json.load(open(p))
    sid = m['id']
    det = m.get('detected_by') or {}
    cells = []
    if isinstance(det, dict):
        for k, v in det.items():
            if not isinstance(v, dict):
                continue
            verdict = {0: 'missed', 1: 'VIOLATION', 2: 'no verdict'}.get(v.get('exit'), '?')
            obs = ', '.join(sorted(set(o.split('::', 1)[-1].rsplit('@', 1)[0] for o in v.get('failed_obligations', [])))[:3])
            cells.append('%s: %s%s' % (k, verdict, (' (' + obs + ')') if obs else ''))
    needs = ' '.join(m.get('needs_to_manifest', [])[:2])[:160].replace('|', '/')
    rows.append('| %s | %s | %s |' % (sid, needs, '; '.join(cells) or 'not run yet'))
print('| seed | what it changes / needs (sub-agent note) | result of `./check` on the changed tree |')
print('|---|---|---|')
print('\n'.join(rows))
