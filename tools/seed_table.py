#!/usr/bin/env python3
"""prints the markdown table 'which checks catch which seeded changes' from seeded/*/meta.json"""
import glob, json, os
rows = []
for p in sorted(glob.glob(os.path.join(os.path.dirname(__file__), '..', 'seeded', '*', 'meta.json'))):
    m = json.load(open(p))
    sid = m['id']
    det = m.get('detected_by') or {}
    cells = []
    if isinstance(det, dict):
        for k, v in det.items():
            if not isinstance(v, dict):
                continue
            verdict = {0: 'missed', 1: 'VIOLATION', 2: 'no verdict'}.get(v.get('exit'), '?')
            obs = ', '.join(sorted(set(o.split('::', 1)[-1].rsplit('@', 1)[0] for o in v.get('failed_obligations', [])))[:3])
            cells.append('%s: %s%s' % (k, verdict, (' (' + obs + ')') if obs else ''))
    needs = ' '.join(m.get('needs_to_manifest', [])[:2])[:160].replace('|', '/')
    rows.append('| %s | %s | %s |' % (sid, needs, '; '.join(cells) or 'not run yet'))
print('| seed | what it changes / needs (sub-agent note) | result of `./check` on the changed tree |')
print('|---|---|---|')
print('\n'.join(rows))

# ---- behaviour-preserving changes (harmless/): must not alarm
hrows = []
for p in sorted(glob.glob(os.path.join(os.path.dirname(__file__), '..', 'harmless', '*', 'meta.json'))):
    m = json.load(open(p))
    notes = ''
    np_ = os.path.join(os.path.dirname(p), 'agent_notes.txt')
    if os.path.exists(np_):
        notes = ' '.join(open(np_).read().split())[:150].replace('|', '/')
    cells = []
    for k, v in (m.get('runs') or {}).items():
        verdict = {0: 'OK', 1: 'FALSE ALARM', 2: 'no verdict'}.get(v.get('exit'), '?')
        why = ''
        if v.get('exit') == 2 and v.get('no_verdict'):
            why = ' (' + v['no_verdict'][0].split(' is NOT VERIFIED')[0].replace('unit ', '')[:70] + ')'
        cells.append('%s: %s%s' % (k, verdict, why))
    hrows.append('| %s | %s | %s |' % (m['id'], notes, '; '.join(cells) or 'not run yet'))
if hrows:
    print()
    print('Behaviour-preserving changes (`harmless/`, `tools/harmrun.py`): the check of the property must not alarm.')
    print()
    print('| change | what it is (sub-agent note) | result of `./check` on the changed tree |')
    print('|---|---|---|')
    print('\n'.join(hrows))
