#!/usr/bin/env python3
"""harmrun.py [--kani] [ids...] — apply each behaviour-preserving change stored under harmless/<id>/patch.diff to a SCRATCH
COPY of the current /repo tree and run the check of the property it was written against: exit 1 there is a FALSE ALARM,
exit 2 (no verdict: the unit cannot follow the restructured code) is tolerated but recorded, exit 0 is the goal."""
import glob, json, os, re, shutil, subprocess, sys, tempfile
VERIF = os.path.abspath(os.path.join(os.path.dirname(__file__), '..'))
args = [a for a in sys.argv[1:] if not a.startswith('--')]
kani = '--kani' in sys.argv
also = [a[7:] for a in sys.argv if a.startswith('--also=')]
ROOT = '/tmp/verif-scratch-harm'
os.makedirs(ROOT, exist_ok=True)
for pd in sorted(glob.glob(os.path.join(VERIF, 'harmless', '*', 'patch.diff'))):
    d = os.path.dirname(pd)
    hid = os.path.basename(d)
    if args and hid not in args and hid.split('-')[0] not in args:
        continue
    mp = os.path.join(d, 'meta.json')
    meta = json.load(open(mp)) if os.path.exists(mp) else {'id': hid, 'property': hid.split('-')[0]}
    tmp = tempfile.mkdtemp(prefix='harm-%s-' % hid, dir=ROOT)
    try:
        shutil.copytree('/repo/src', os.path.join(tmp, 'src'))
        for f in ('Cargo.toml', 'Cargo.lock'):
            shutil.copy(os.path.join('/repo', f), tmp)
        ap = subprocess.run(['patch', '-p1', '-s', '-d', tmp, '-i', pd], capture_output=True, text=True)
        if ap.returncode != 0:
            print(hid, 'patch does not apply', flush=True)
            continue
        res = meta.setdefault('runs', {})
        for prop in [meta['property']] + (also[0].split(',') if also else []):
            cmd = [os.path.join(VERIF, 'check'), prop, '--repo', tmp, '--evidence-dir', os.path.join(tmp, 'ev')]
            if not kani:
                cmd.append('--no-kani')
            p = subprocess.run(cmd, capture_output=True, text=True, cwd=VERIF, env=dict(os.environ, VERIF_SCRATCH=os.path.join(tmp, 'scratch')))
            obs = re.findall(r'^FAILED-OBLIGATION: (\S+)', p.stdout, re.M)
            nov = re.findall(r'^NO-VERDICT: (.*)$', p.stdout, re.M)
            res[prop + ('+kani' if kani else '')] = {'exit': p.returncode, 'failed_obligations': obs, 'no_verdict': [n[:200] for n in nov[:3]]}
            print(hid, prop, 'exit', p.returncode, obs[:3], [n[:120] for n in nov[:2]], flush=True)
        json.dump(meta, open(mp, 'w'), indent=1)
    finally:
        shutil.rmtree(tmp, ignore_errors=True)
