"""Per-property configuration of the checks (which Verus units / functions and which Kani
harnesses decide a property).  Function-to-property attribution lives in the unit templates
(`props=` on //@FN and //@LEMMA directives)."""

STANDING_ASSUMPTIONS = [
    'Verus 0.2026.09.13 + bundled Z3, vstd specifications; Kani 0.68 / CBMC 6.11',
    'extractor tools/extract.py + rewrite rules in units/*.vrs (R0-R15, DESIGN.md section 3): the verified text is the '
    'real function body with device-memory / HAL / macro expressions replaced by contract stubs',
    'HAL contract of src/hal.rs (# Safety / implementation-safety clauses) is what the platform provides',
    'Rust semantics of ownership/drop; memory model: fence(SeqCst)+Release store order preceding plain stores',
    'default cargo features (alloc, embedded-io); the not(alloc) variants are not verified',
    'termination of device polling loops is not claimed',
]

PROPS = {
    'C05': {
        'level': 'proof',
        'units': ['queue'],
        'kani_quick': ['c05_should_notify_full_domain', 'c05_set_dev_notify'],
        'kani_thorough': [],
        'kani_bounds': {'c05_should_notify_full_domain': 'loop-free after construction (SIZE=4): complete over '
                        '2^16 avail_idx x 2^16 avail_event x 2^16 old index x flags x event_idx',
                        'c05_set_dev_notify': 'loop-free: complete over flags x enable x event_idx'},
        'assumptions': ['device follows VirtIO 1.x 2.7.7/2.7.10: it interrupts when used_event == used_idx-1 and reads '
                        'avail.flags; liveness (blocking helpers return) is not decided'],
        'explanation': 'should_notify/set_dev_notify/pop_used(used_event)/add_notify_wait_pop proved against the '
                       'specification predicate vring_need_event for all index values incl. wrap-around',
    },
    'C01': {'level': 'proof', 'units': ['queue'], 'kani_quick': [], 'kani_thorough': []},
    'C04': {'level': 'proof', 'units': ['queue'], 'kani_quick': [], 'kani_thorough': []},
    'C03': {'level': 'proof', 'units': ['queue'], 'kani_quick': [], 'kani_thorough': []},
}
