"""Per-property configuration of the checks (which Verus units / functions and which Kani
harnesses decide a property).  Function-to-property attribution lives in the unit templates
(`props=` on //@FN and //@LEMMA directives)."""

STANDING_ASSUMPTIONS = [
    'Verus 0.2026.09.13 + bundled Z3, vstd specifications; Kani 0.68 / CBMC 6.11',
    'extractor tools/extract.py + rewrite rules in units/*.vrs (R0-R15, DESIGN.md section 3): the verified text is the '
    'real function body with device-memory / HAL / macro expressions replaced by contract stubs',
    'HAL contract of src/hal.rs (# Safety / implementation-safety clauses) is what the platform provides',
    'Rust semantics of ownership/drop; memory model: fence(SeqCst)+Release store order preceding plain stores',
    'default cargo features (alloc, embedded-io); the not(alloc) variants are not verified',
    'termination of device polling loops is not claimed',
    'machine arithmetic is NOT treated as mathematical: Verus checks every exec + - * / cast for overflow on the machine types and Kani runs with overflow checks on; the only idealisation is `global size_of usize == 8` (64-bit target) where a unit says so',
    'unsafe code: every unsafe block of the verified functions is either kept (calls of unsafe fns whose # Safety clause is the stub precondition) or replaced by a contract stub (raw pointer / MMIO / allocation); the stubs are the unverified residue and are listed above',
]

Q_ASSUME = [
    'queue unit: raw-pointer accesses to descriptor table / available ring / used ring are contract stubs (DevMem, UsedPtr); '
    'their memory effect on the real structs is exercised by the Kani scenario harnesses',
    'queue unit: every value read from the used ring is uninterpreted (used_snap(site)); two executions of the same read site '
    'are assumed to see the same value',
    'queue unit: caller buffers are opaque handles InBuf/OutBuf carrying address+length identity (R5)',
    'queue unit: axiom_mut_slice_len (a slice length cannot change through &mut [T])',
    'queue unit: dev_tables_intact() - the device does not overwrite (device-readable) indirect tables; its violation is '
    'known finding D10, demonstrated on the real code by Kani harness k_scribble_indirect',
    'queue unit: add() precondition inputs.len()+outputs.len() <= usize::MAX (slices of 16-byte elements cannot exceed it)',
]

PROPS = {
    'C01': {
        'level': 'proof', 'units': ['queue'],
        'kani_quick': ['stub_descflags', 'k_life_direct'],
        'kani_thorough': ['k_life_indirect', 'k_life_direct_anyidx', 'k_life_indirect_anyidx', 'k_two_direct', 'k_two_indirect'],
        'kani_bounds': {'k_life_*': 'bounded stand-in: SIZE=4, one chain [1 in, 1 out], index 0xffff (anyidx: any 16-bit index)',
                        'k_two_*': 'bounded stand-in: SIZE=4, two chains, both completion orders'},
        'assumptions': Q_ASSUME,
        'explanation': 'representation invariant VirtQueue::wf() (free list / ownership partition / per-chain descriptor contents / '
                       'device copy == shadow) proved preserved by add, add_direct, add_indirect, recycle_descriptors, pop_used for all SIZE, '
                       'all histories; add() postcondition: chain describes exactly the caller buffers in order, ring slot avail_idx%SIZE, index+1',
    },
    'C02': {
        'level': 'proof', 'units': ['queue'], 'kani_quick': [], 'kani_thorough': ['k_life_direct', 'k_two_direct'],
        'kani_bounds': {'k_life_direct': 'bounded stand-in: SIZE=4, one chain [1 in, 1 out], index 0xffff',
                        'k_two_direct': 'bounded stand-in: SIZE=4, two chains, both completion orders, then a chain over the re-ordered free list'},
        'assumptions': Q_ASSUME + ['program order only: fence(SeqCst)+Release store are assumed to order the preceding plain stores for '
                                   'the device; the device fetches available entries in order'],
        'explanation': 'ghost store log: add() appends descriptor stores (into descriptors that were free, never into outstanding chains), '
                       'then Ring(slot), Fence, AvailIdx(old+1) in this order; pop_used/recycle/set_dev_notify never store the available index',
    },
    'C03': {
        'level': 'proof', 'units': ['queue', 'sndnb'],
        'kani_quick': ['k_refuse', 'k_life_direct'],
        'kani_thorough': ['k_life_direct_anyidx', 'k_life_indirect_anyidx', 'k_two_direct', 'k_two_indirect'],
        'kani_bounds': {'k_refuse': 'bounded stand-in: SIZE=4', 'k_life_*': 'bounded stand-in: SIZE=4, one chain'},
        'assumptions': Q_ASSUME,
        'explanation': 'pop_used/peek_used/can_pop/available_desc/add contracts over arbitrary used-ring contents and all 2^16 index values '
                       '(wrapping arithmetic in the contracts); refusal <=> no buffers or capacity, with *self unchanged',
    },
    'C04': {
        'level': 'proof', 'units': ['queue', 'net', 'sndnb'],
        'kani_quick': ['k_life_indirect'],
        'kani_thorough': ['k_life_direct', 'k_two_direct', 'k_two_indirect'],
        'kani_bounds': {'k_life_*': 'bounded stand-in: SIZE=4, one chain; HAL call ledger with bouncing addresses'},
        'assumptions': Q_ASSUME + ['exactly-once counting: at-least-once by proof (descriptor addresses are share_ret values; unshare '
                                   'precondition = HAL safety clause), at-most-once by call-site census + bounded Kani ledger'],
        'explanation': 'H::share / H::unshare carry the # Safety clauses of src/hal.rs as requires; unshare(paddr, buf, dir, ap) must be proved '
                       'to receive paddr == share_ret(buf, dir, ap) from wf(); BufferDirection::Both never reaches share',
    },
    'C07': {
        'level': 'proof', 'units': ['queue'],
        'kani_quick': ['k_scribble_direct', 'k_scribble_indirect'],
        'kani_thorough': ['k_life_direct', 'k_life_indirect'],
        'kani_bounds': {'k_scribble_*': 'bounded stand-in: SIZE=4, one outstanding chain, one scribbled descriptor/table entry, arbitrary used ring'},
        'assumptions': Q_ASSUME + ['drivers above the queue (owning queue, vsock parser, net, console, input) are covered by their own units '
                                   'where built; see MANIFEST level_note'],
        'explanation': 'all queue obligations (array bounds, unwrap/expect/assert unreachability, overflow freedom, wf preservation, unshare '
                       'arguments) are proved with every used-ring value uninterpreted and any read of driver-owned device-visible memory havoc',
    },
    'C05': {
        'level': 'proof',
        'units': ['queue', 'blk', 'console', 'net', 'input', 'owning'],
        # the queue flags (event_idx / indirect) are the negotiated ones: clause ring_ok of every constructor (C08 units)
        'dep_units': [{'unit': u, 'props': ['C08']} for u in ('init_rng', 'init_rtc', 'init_9p', 'init_blk', 'init_gpu', 'init_vsock',
                                                               'init_console', 'init_sound', 'init_net', 'init_input')],
        'kani_quick': ['c05_should_notify_full_domain', 'c05_set_dev_notify'],
        'kani_thorough': ['k_life_direct_anyidx'],
        'kani_bounds': {'c05_should_notify_full_domain': 'loop-free after construction (SIZE=4): complete over '
                        '2^16 avail_idx x 2^16 avail_event x 2^16 old index x flags x event_idx',
                        'c05_set_dev_notify': 'loop-free: complete over flags x enable x event_idx'},
        'assumptions': ['device follows VirtIO 1.x 2.7.7/2.7.10: it interrupts when used_event == used_idx-1 and reads '
                        'avail.flags; liveness (blocking helpers return) is not decided'],
        'explanation': 'should_notify/set_dev_notify/pop_used(used_event)/add_notify_wait_pop proved against the '
                       'specification predicate vring_need_event for all index values incl. wrap-around',
    },
}


# bounded Kani scenarios that exercise a queue function on the real code: used when Verus cannot follow that function in a tree
_Q_FALLBACK = {
    'VirtQueue::add': ['k_life_direct', 'k_refuse'],
    'VirtQueue::add_direct': ['k_life_direct', 'k_two_direct'],
    'VirtQueue::add_indirect': ['k_life_indirect'],
    'VirtQueue::recycle_descriptors': ['k_life_direct', 'k_life_indirect', 'k_two_direct'],
    'VirtQueue::pop_used': ['k_life_direct', 'k_two_direct'],
    'VirtQueue::can_pop': ['k_life_direct_anyidx'],
    'VirtQueue::should_notify': ['c05_should_notify_full_domain'],
    'VirtQueue::set_dev_notify': ['c05_set_dev_notify'],
}
for _p in ('C01', 'C02', 'C03', 'C04', 'C05', 'C07'):
    PROPS[_p].setdefault('fallback_kani', dict(_Q_FALLBACK))

# Properties configured by separate files props.d/<ID>.json (same keys as above; "assumptions" is a list of strings).
import glob as _glob, json as _json, os as _os
for _f in sorted(_glob.glob(_os.path.join(_os.path.dirname(_os.path.abspath(__file__)), '..', 'props.d', '*.json'))):
    _d = _json.load(open(_f))
    _id = _d.pop('property_id', _os.path.splitext(_os.path.basename(_f))[0])
    if _id in PROPS:
        # merge: extra units / harnesses / assumptions
        for _k in ('units', 'kani_quick', 'kani_thorough', 'assumptions'):
            PROPS[_id].setdefault(_k, [])
            for _x in _d.get(_k, []):
                if _x not in PROPS[_id][_k]:
                    PROPS[_id][_k].append(_x)
        PROPS[_id].setdefault('kani_bounds', {}).update(_d.get('kani_bounds', {}))
        if _d.get('explanation'):
            PROPS[_id]['explanation'] = (PROPS[_id].get('explanation', '') + ' | ' + _d['explanation']).strip(' |')
        for _k, _v in _d.items():
            if _k not in PROPS[_id]:
                PROPS[_id][_k] = _v
    else:
        PROPS[_id] = _d
