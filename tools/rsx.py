"""rsx: a small Rust lexer, item finder and structural (token-level) pattern
matcher used by the extractor.  No third-party dependencies.

Everything here works on *text*: items are cut out of the real source files
byte-for-byte (comments blanked), and rewrite rules are token patterns with
wildcards, so whitespace/comments/line breaks never matter.
"""
import re
from dataclasses import dataclass

OPEN = {'(': ')', '[': ']', '{': '}'}
CLOSE = {')': '(', ']': '[', '}': '{'}


@dataclass
class Tok:
    kind: str   # ident | life | num | str | char | punct | wild
    text: str
    start: int
    end: int


class LexError(Exception):
    pass


_ident = re.compile(r'[A-Za-z_][A-Za-z0-9_]*')
_num = re.compile(r'[0-9][0-9A-Za-z_]*(\.[0-9][0-9A-Za-z_]*)?')
_wild = re.compile(r'\$\*?[A-Za-z_][A-Za-z0-9_]*')


def blank_comments(src: str) -> str:
    """Replace comments by spaces (newlines kept) so that offsets stay valid."""
    out = list(src)
    i, n = 0, len(src)
    while i < n:
        c = src[i]
        if c == '/' and i + 1 < n and src[i + 1] == '/':
            j = src.find('\n', i)
            j = n if j < 0 else j
            for k in range(i, j):
                out[k] = ' '
            i = j
        elif c == '/' and i + 1 < n and src[i + 1] == '*':
            depth, j = 1, i + 2
            while j < n and depth:
                if src.startswith('/*', j):
                    depth += 1; j += 2
                elif src.startswith('*/', j):
                    depth -= 1; j += 2
                else:
                    j += 1
            for k in range(i, j):
                if out[k] != '\n':
                    out[k] = ' '
            i = j
        elif c == '"' or (c in 'br' and _str_start(src, i)):
            i = _skip_string(src, i)
        elif c == "'":
            i = _skip_char_or_lifetime(src, i)[0]
        else:
            i += 1
    return ''.join(out)


def _str_start(src, i):
    m = re.match(r'(b?r#*"|b")', src[i:i + 12])
    if not m:
        return False
    # must not be the tail of an identifier
    return i == 0 or not (src[i - 1].isalnum() or src[i - 1] == '_')


def _skip_string(src, i):
    m = re.match(r'b?r(#*)"', src[i:i + 12])
    if m:
        hashes = m.group(1)
        j = src.find('"' + hashes, i + len(m.group(0)))
        if j < 0:
            raise LexError('unterminated raw string')
        return j + 1 + len(hashes)
    if src[i] == 'b':
        i += 1
    assert src[i] == '"'
    j = i + 1
    while j < len(src):
        if src[j] == '\\':
            j += 2
        elif src[j] == '"':
            return j + 1
        else:
            j += 1
    raise LexError('unterminated string')


def _skip_char_or_lifetime(src, i):
    """returns (end, kind)"""
    # char literal: 'x' , '\n', '\u{1F600}', '\''
    m = re.match(r"'(\\u\{[0-9a-fA-F_]+\}|\\x[0-9a-fA-F]{2}|\\.|[^\\'])'", src[i:i + 16])
    if m:
        return i + len(m.group(0)), 'char'
    m = re.match(r"'[A-Za-z_][A-Za-z0-9_]*", src[i:])
    if m:
        return i + len(m.group(0)), 'life'
    raise LexError("stray ' at %d" % i)


def lex(src: str, wild=False):
    """Tokenise comment-blanked text."""
    toks = []
    i, n = 0, len(src)
    while i < n:
        c = src[i]
        if c.isspace():
            i += 1
            continue
        if wild and c == '$':
            m = _wild.match(src, i)
            if not m:
                raise LexError('bad wildcard at %d' % i)
            toks.append(Tok('wild', m.group(0), i, m.end()))
            i = m.end()
            continue
        if c == '"' or (c in 'br' and _str_start(src, i)):
            j = _skip_string(src, i)
            toks.append(Tok('str', src[i:j], i, j)); i = j; continue
        if c == "'":
            j, k = _skip_char_or_lifetime(src, i)
            toks.append(Tok(k, src[i:j], i, j)); i = j; continue
        m = _ident.match(src, i)
        if m:
            toks.append(Tok('ident', m.group(0), i, m.end())); i = m.end(); continue
        m = _num.match(src, i)
        if m:
            toks.append(Tok('num', m.group(0), i, m.end())); i = m.end(); continue
        if src.startswith('::', i) or src.startswith('->', i) or src.startswith('=>', i):
            toks.append(Tok('punct', src[i:i + 2], i, i + 2)); i += 2; continue
        toks.append(Tok('punct', c, i, i + 1)); i += 1
    return toks


def match_close(toks, i):
    """toks[i] is an opening bracket; return index of its partner."""
    depth = 0
    for j in range(i, len(toks)):
        t = toks[j].text
        if toks[j].kind == 'punct':
            if t in OPEN:
                depth += 1
            elif t in CLOSE:
                depth -= 1
                if depth == 0:
                    return j
    raise LexError('unbalanced bracket at token %d (%s)' % (i, toks[i].text))


# --------------------------------------------------------------------------
# Item finder
# --------------------------------------------------------------------------

@dataclass
class Item:
    kind: str          # fn | struct | enum | const | trait | impl | mod | other
    name: str
    container: str     # '' | 'Type' | 'Trait for Type' | 'trait Trait'
    attrs: str         # text of the attributes
    start: int         # char offset of first token after attributes
    sig_end: int       # char offset of the body '{' (fn) or end
    end: int           # char offset one past the item
    has_body: bool
    test: bool


ITEM_KW = {'fn', 'struct', 'enum', 'union', 'const', 'static', 'type', 'use', 'trait', 'impl',
           'mod', 'extern', 'macro_rules'}
QUAL = {'pub', 'unsafe', 'async', 'default', 'crate', 'super', 'in', 'self'}


def find_items(src: str):
    """Return all items (recursively through mod/impl/trait blocks)."""
    text = blank_comments(src)
    toks = lex(text)
    items = []
    _scan_block(toks, 0, len(toks), '', False, items)
    return text, toks, items


def _scan_block(toks, i, end, container, in_test, items):
    while i < end:
        # attributes
        attr_start = i
        test = in_test
        attrs = []
        while i < end and toks[i].text == '#':
            j = i + 1
            if toks[j].text == '!':
                j += 1
            k = match_close(toks, j)
            atext = ''.join(t.text for t in toks[i:k + 1])
            attrs.append(atext)
            if atext.replace(' ', '') in ('#[cfg(test)]',):
                test = True
            i = k + 1
        if i >= end:
            break
        start_tok = i
        # qualifiers
        while i < end and (toks[i].text in QUAL or (toks[i].text == '(' and toks[i - 1].text == 'pub')):
            if toks[i].text == '(':
                i = match_close(toks, i) + 1
            else:
                i += 1
        if i >= end:
            break
        kw = toks[i].text
        if kw == 'extern' and toks[i + 1].kind == 'str':
            i += 2
            kw = toks[i].text
        if kw == ';':
            i += 1
            continue
        if kw == 'const' and i + 1 < end and toks[i + 1].text in ('fn', 'unsafe'):
            i += 1
            while toks[i].text != 'fn':
                i += 1
            kw = 'fn'
        if kw not in ITEM_KW:
            # macro invocation item such as bitflags! { .. } or foo!(..);
            j = i
            while j < end and toks[j].text not in ('{', '(', '[', ';'):
                j += 1
            if j < end and toks[j].text != ';':
                j = match_close(toks, j)
            if j + 1 < end and toks[j + 1].text == ';':
                j += 1
            items.append(Item('other', toks[i].text, container, ' '.join(attrs), toks[start_tok].start,
                              toks[j].end, toks[j].end, False, test))
            i = j + 1
            continue
        name = toks[i + 1].text if i + 1 < end else ''
        # find end of header: first '{' or ';' at bracket depth 0 (angle brackets ignored)
        j = i + 1
        depth = 0
        while j < end:
            t = toks[j]
            if t.kind == 'punct':
                if t.text in '([':
                    depth += 1
                elif t.text in ')]':
                    depth -= 1
                elif depth == 0 and t.text in '{;':
                    break
                elif depth == 0 and t.text == '=' and kw in ('const', 'static', 'type'):
                    # skip initialiser expression to ';'
                    k = j
                    d2 = 0
                    while k < end:
                        tt = toks[k]
                        if tt.kind == 'punct':
                            if tt.text in OPEN:
                                d2 += 1
                            elif tt.text in CLOSE:
                                d2 -= 1
                            elif d2 == 0 and tt.text == ';':
                                break
                        k += 1
                    j = k
                    break
            j += 1
        if j >= end:
            break
        if toks[j].text == ';':
            items.append(Item(kw, name, container, ' '.join(attrs), toks[start_tok].start,
                              toks[j].start, toks[j].end, False, test))
            i = j + 1
            continue
        close = match_close(toks, j)
        if kw == 'impl':
            hdr = toks[i + 1:j]
            cname = _impl_name(hdr)
            items.append(Item('impl', cname, container, ' '.join(attrs), toks[start_tok].start,
                              toks[j].start, toks[close].end, True, test))
            _scan_block(toks, j + 1, close, cname, test, items)
        elif kw == 'trait':
            items.append(Item('trait', name, container, ' '.join(attrs), toks[start_tok].start,
                              toks[j].start, toks[close].end, True, test))
            _scan_block(toks, j + 1, close, 'trait ' + name, test, items)
        elif kw == 'mod':
            items.append(Item('mod', name, container, ' '.join(attrs), toks[start_tok].start,
                              toks[j].start, toks[close].end, True, test))
            _scan_block(toks, j + 1, close, container, test, items)
        else:
            items.append(Item(kw, name, container, ' '.join(attrs), toks[start_tok].start,
                              toks[j].start, toks[close].end, True, test))
        i = close + 1
        if i < end and toks[i].text == ';':
            i += 1


def _impl_name(hdr):
    """hdr: tokens between `impl` and `{`.  Returns 'Type' or 'Trait for Type'."""
    # strip leading generics <...>
    k = 0
    if hdr and hdr[0].text == '<':
        depth = 0
        for k, t in enumerate(hdr):
            if t.text == '<':
                depth += 1
            elif t.text == '>':
                depth -= 1
                if depth == 0:
                    break
        k += 1
    rest = hdr[k:]
    # cut where clause
    for w, t in enumerate(rest):
        if t.text == 'where':
            rest = rest[:w]
            break
    depth = 0
    for_at = None
    for idx, t in enumerate(rest):
        if t.text == '<':
            depth += 1
        elif t.text == '>':
            depth -= 1
        elif t.text == 'for' and depth == 0:
            for_at = idx
            break

    def head(ts):
        # last path segment ident before generic args
        name = ''
        depth = 0
        for t in ts:
            if t.text == '<':
                depth += 1
            elif t.text == '>':
                depth -= 1
            elif depth == 0 and t.kind == 'ident' and t.text not in ('dyn', 'mut', 'const', 'unsafe'):
                name = t.text
        return name
    if for_at is None:
        return head(rest)
    return head(rest[:for_at]) + ' for ' + head(rest[for_at + 1:])


def select(items, selector, kind=None):
    """selector: 'name' (top level), 'Type::name', 'Trait for Type::name', 'trait Trait::name'.
    Non-test items only."""
    if '::' in selector:
        cont, name = selector.rsplit('::', 1)
    else:
        cont, name = '', selector
    found = []
    for it in items:
        if it.test or it.name != name:
            continue
        if kind and it.kind != kind:
            continue
        if it.kind in ('impl', 'mod', 'use', 'other'):
            continue
        if cont == '':
            if it.container == '':
                found.append(it)
        elif it.container == cont:
            found.append(it)
        elif ' for ' in it.container and ' for ' not in cont and not cont.startswith('trait ') \
                and it.container.split(' for ')[1] == cont:
            found.append(it)
    return found


# --------------------------------------------------------------------------
# Structural matcher
# --------------------------------------------------------------------------

class Pattern:
    def __init__(self, pat: str):
        self.src = pat
        self.toks = lex(pat, wild=True)
        if not self.toks:
            raise ValueError('empty pattern')


def _match_here(ptoks, pi, toks, ti, binds):
    """Try to match ptoks[pi:] at toks[ti:].  Returns end index or None. binds updated."""
    while pi < len(ptoks):
        p = ptoks[pi]
        if p.kind == 'wild':
            multi = p.text.startswith('$*')
            name = p.text.lstrip('$*')
            # single-token wildcards by naming convention: $id_xxx matches one identifier
            if name.startswith('id_'):
                if ti < len(toks) and toks[ti].kind == 'ident':
                    if name in binds and binds[name] != (ti, ti + 1, toks[ti].text):
                        if binds[name][2] != toks[ti].text:
                            return None
                    binds[name] = (ti, ti + 1, toks[ti].text)
                    pi += 1; ti += 1
                    continue
                return None
            if name.startswith('lt_'):
                if ti < len(toks) and toks[ti].kind == 'life':
                    if name in binds and binds[name][2] != toks[ti].text:
                        return None
                    binds[name] = (ti, ti + 1, toks[ti].text)
                    pi += 1; ti += 1
                    continue
                return None
            # balanced sequence, minimal length such that the rest matches
            j = ti
            depth = 0
            minlen = 0 if multi else 1
            while True:
                if j - ti >= minlen and depth == 0:
                    saved = dict(binds)
                    binds[name] = (ti, j, None)
                    r = _match_here(ptoks, pi + 1, toks, j, binds)
                    if r is not None:
                        return r
                    binds.clear(); binds.update(saved)
                if j >= len(toks):
                    return None
                t = toks[j]
                if t.kind == 'punct':
                    if t.text in OPEN:
                        depth += 1
                    elif t.text in CLOSE:
                        depth -= 1
                        if depth < 0:
                            return None
                    elif depth == 0 and t.text == ';' and not multi:
                        return None
                    elif depth == 0 and t.text == ',' and not multi:
                        return None
                j += 1
        else:
            if ti >= len(toks) or toks[ti].text != p.text:
                return None
            pi += 1; ti += 1
    return ti


def find_matches(pattern: Pattern, text: str):
    """Non-overlapping matches, left to right.  Yields (start_char, end_char, {name: text})."""
    toks = lex(text)
    out = []
    ti = 0
    while ti < len(toks):
        binds = {}
        r = _match_here(pattern.toks, 0, toks, ti, binds)
        if r is not None and r > ti:
            b = {}
            for k, (a, z, _) in binds.items():
                b[k] = text[toks[a].start:toks[z - 1].end] if z > a else ''
            out.append((toks[ti].start, toks[r - 1].end, b))
            ti = r
        else:
            ti += 1
    return out


def substitute(template: str, binds: dict, extra: dict = None):
    def rep(m):
        name = m.group(0).lstrip('$*')
        if name in binds:
            return binds[name]
        if extra and name in extra:
            return str(extra[name])
        raise KeyError('unbound $%s in substitution' % name)
    return _wild.sub(rep, template)


def rewrite(text: str, pattern: Pattern, template: str, extra_fn=None):
    """Apply one rule everywhere; returns (new_text, count)."""
    ms = find_matches(pattern, text)
    if not ms:
        return text, 0
    out = []
    pos = 0
    for k, (a, z, b) in enumerate(ms):
        out.append(text[pos:a])
        extra = extra_fn(k) if extra_fn else None
        out.append(substitute(template, b, extra))
        pos = z
    out.append(text[pos:])
    return ''.join(out), len(ms)
