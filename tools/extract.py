#!/usr/bin/env python3
"""extract.py — builds a single-file Verus unit from a template in
/verif/units/*.vrs and the *current* text of the real functions in /repo/src.

Template directives (lines starting with //@):

  //@INCLUDE other.vrs
  //@RULE name [scope=body|sig|all]      rewrite rule (token pattern, wildcards $x, $*x, $id_x)
  //@  PAT <pattern>
  //@  SUB <replacement>
  //@FN <file> <selector> [rules=r1,r2,...] [rename=newname]
  //@SPEC                                  text inserted between signature and body
  //@LOOP k                                text inserted before the k-th loop's body
  //@AT fn.start|fn.end|loopK.start|loopK.end     text inserted there
  //@AFTER k `pattern` / //@BEFORE k `pattern`    text inserted after/before the k-th match
  //@END
  //@STRUCT <file> <name> [rules=...]      struct/enum definition, attributes dropped
  //@FIELDS                                extra (ghost) fields appended
  //@END
  //@CENSUS <label> <file> `pattern` == N   call-site census obligation

Exit status / exceptions: ExtractError => the caller reports exit 2 (lost anchor /
unsupported), never a violation.
"""
import collections
import json
import os
import re
import sys

sys.path.insert(0, os.path.dirname(__file__))
import rsx  # noqa: E402


class ExtractError(Exception):
    pass


LOOP_KW = ('for', 'while', 'loop')


class Rule:
    def __init__(self, name, scope='all'):
        self.name = name
        self.scope = scope
        self.pat = None
        self.sub = None
        self.count = 0


def strip_attrs_in_body(text):
    """R0: drop #[cfg(feature = "alloc")], #[allow(..)], #[inline]; drop statements guarded by
    #[cfg(not(feature = "alloc"))]."""
    toks = rsx.lex(text)
    cuts = []  # (start,end) char ranges to blank
    i = 0
    while i < len(toks):
        if toks[i].text == '#' and i + 1 < len(toks) and toks[i + 1].text == '[':
            k = rsx.match_close(toks, i + 1)
            a = ''.join(t.text for t in toks[i:k + 1])
            if a in ('#[cfg(feature="alloc")]',) or a.startswith('#[allow(') or a.startswith('#[inline') \
                    or a.startswith('#[must_use') or a.startswith('#[doc'):
                cuts.append((toks[i].start, toks[k].end))
                i = k + 1
                continue
            if a == '#[cfg(not(feature="alloc"))]':
                # remove attribute and the following statement
                j = k + 1
                if toks[j].text in ('if', 'for', 'while', 'loop', 'match', '{', 'unsafe'):
                    # find block end(s)
                    while True:
                        while toks[j].text != '{':
                            j += 1
                        j = rsx.match_close(toks, j)
                        if j + 1 < len(toks) and toks[j + 1].text == 'else':
                            j += 2
                            continue
                        break
                else:
                    depth = 0
                    while True:
                        t = toks[j]
                        if t.kind == 'punct':
                            if t.text in rsx.OPEN:
                                depth += 1
                            elif t.text in rsx.CLOSE:
                                depth -= 1
                            elif depth == 0 and t.text == ';':
                                break
                        j += 1
                cuts.append((toks[i].start, toks[j].end))
                i = j + 1
                continue
            if a == '#[cfg(target_arch="x86_64")]':
                # The x86_64-only HypPci transport is outside the verified configuration (DESIGN section 7): drop the
                # attribute together with the match arm / enum variant / statement it guards.
                j = k + 1
                depth = 0
                end = None
                while j < len(toks):
                    t = toks[j]
                    if t.kind == 'punct':
                        if t.text in rsx.OPEN:
                            depth += 1
                        elif t.text in rsx.CLOSE:
                            depth -= 1
                            if depth < 0:
                                end = toks[j - 1].end
                                break
                            if depth == 0 and t.text == '}' and j + 1 < len(toks) and toks[j + 1].text not in (',', '.', '?'):
                                end = t.end
                                break
                        elif depth == 0 and t.text in (',', ';'):
                            end = t.end
                            break
                    j += 1
                if end is None:
                    end = toks[-1].end
                cuts.append((toks[i].start, end))
                while i < len(toks) and toks[i].start < end:
                    i += 1
                continue
            if a.startswith('#[cfg('):
                raise ExtractError('unsupported cfg attribute in extracted text: ' + a)
            # unknown attribute: drop (derive, repr etc. are handled at item level)
            cuts.append((toks[i].start, toks[k].end))
            i = k + 1
            continue
        i += 1
    if not cuts:
        return text
    out = []
    pos = 0
    for a, z in cuts:
        out.append(text[pos:a])
        out.append(re.sub(r'[^\n]', ' ', text[a:z]))
        pos = z
    out.append(text[pos:])
    return ''.join(out)


def strip_macros(text):
    """R9: delete log macros (debug!/info!/warn!/error!/trace!) statements."""
    for m in ('debug', 'info', 'warn', 'error', 'trace'):
        pat = rsx.Pattern(m + '!($*args);')
        text, _ = rsx.rewrite(text, pat, '')
        pat = rsx.Pattern('log::' + m + '!($*args);')
        text, _ = rsx.rewrite(text, pat, '')
    return text


def name_result(sig):
    """R14: `-> T` becomes `-> (r: T)` at depth 0 of the signature."""
    toks = rsx.lex(sig)
    depth = 0
    for i, t in enumerate(toks):
        if t.kind == 'punct':
            if t.text in '([':
                depth += 1
            elif t.text in ')]':
                depth -= 1
            elif t.text == '->' and depth == 0:
                # return type runs to `where` at depth 0 or end
                end = len(sig)
                d2 = 0
                for u in toks[i + 1:]:
                    if u.text in ('(', '[', '<'):
                        d2 += 1
                    elif u.text in (')', ']', '>'):
                        d2 -= 1
                    elif u.text == 'where' and d2 == 0:
                        end = u.start
                        break
                ty = sig[t.end:end].strip()
                if ty == '!':
                    return sig
                return sig[:t.end] + ' (r: ' + ty + ') ' + sig[end:]
    return sig


class FnSpec:
    def __init__(self, file, selector, opts):
        self.file = file
        self.selector = selector
        self.opts = opts
        self.spec = ''
        self.loops = {}
        self.at = []       # (where, text)
        self.anchors = []  # (mode, k, pattern, text)
        self.sig_override = None


class Unit:
    def __init__(self, name, repo, units_dir):
        self.name = name
        self.repo = repo
        self.units_dir = units_dir
        self.rules = {}
        self.rule_order = []
        self.out = []          # list of text chunks
        self.line = 1
        self.map = []          # dicts: gen_start, gen_end, selector, file, src_line
        self.functions = []
        self.census = []
        self.cache = {}
        self.site_counter = 0
        self.sites = []
        self.vacuity = False
        self.twins = []
        self.lemmas = {}
        self.closure_counts = {}
        self.inline_helpers = set()  # names of source functions unknown to the template, to be inlined mechanically at call sites
        self.inlined = []       # (caller selector, helper name)
        self.extra_consts = []  # names of source-level `const` items to import mechanically (a change introduced them)
        self.stub_out = set()   # selectors whose bodies are replaced by `unimplemented!()` (contract kept): per-function isolation
        self.stubbed = []       # (selector, reason)

    # -------- source access ----------
    def source(self, file):
        if file not in self.cache:
            p = os.path.join(self.repo, file)
            if not os.path.exists(p):
                raise ExtractError('lost anchor: source file %s not found' % file)
            src = open(p).read()
            self.cache[file] = (src,) + rsx.find_items(src)
        return self.cache[file]

    def emit(self, text):
        self.out.append(text)
        self.line += text.count('\n')

    # -------- template parsing ----------
    def load(self, path):
        lines = open(path).read().split('\n')
        i = 0
        n = len(lines)

        def block(i):
            """collect lines until next //@ directive; returns (text, next_i)"""
            buf = []
            while i < n and not lines[i].lstrip().startswith('//@'):
                buf.append(lines[i])
                i += 1
            return '\n'.join(buf) + '\n', i

        while i < n:
            ln = lines[i]
            s = ln.strip()
            if not s.startswith('//@'):
                if s == '} // verus!' and self.extra_consts:
                    self.emit_extra_consts()
                if self.vacuity and re.match(r'\s*(pub\s+)?proof fn lemma_', ln):
                    self.emit('#[verifier::external_body]\n')
                self.emit(ln + '\n')
                i += 1
                continue
            d = s[3:].strip()
            i += 1
            if d.startswith('INCLUDE'):
                self.load(os.path.join(self.units_dir, d.split()[1]))
            elif d.startswith('RULE'):
                parts = d.split()
                r = Rule(parts[1])
                for p in parts[2:]:
                    if p.startswith('scope='):
                        r.scope = p[6:]
                while i < n and lines[i].strip().startswith('//@ ') and \
                        lines[i].strip()[4:].lstrip().split(' ', 1)[0] in ('PAT', 'SUB'):
                    kind, _, val = lines[i].strip()[4:].lstrip().partition(' ')
                    if kind == 'PAT':
                        r.pat = rsx.Pattern(val.strip())
                    else:
                        r.sub = val.strip()
                    i += 1
                if r.pat is None or r.sub is None:
                    if r.pat is not None and r.sub is None:
                        r.sub = ''
                    else:
                        raise ExtractError('rule %s incomplete' % r.name)
                self.rules[r.name] = r
                self.rule_order.append(r.name)
            elif d.startswith('FN'):
                parts = d.split()
                file = parts[1]
                rest = ' '.join(parts[2:])
                opts = {}
                m = re.search(r'\s(rules|rename)=', ' ' + rest)
                selector = rest
                for om in re.finditer(r'(rules|rename|props|novac|attr)=(\S+)', rest):
                    opts[om.group(1)] = om.group(2)
                selector = re.sub(r'\s*(rules|rename|props|novac|attr)=\S+', '', rest).strip()
                fs = FnSpec(file, selector, opts)
                # sub-directives until //@END
                while i < n:
                    s2 = lines[i].strip()
                    if not s2.startswith('//@'):
                        i += 1
                        continue
                    d2 = s2[3:].strip()
                    i += 1
                    if d2 == 'END':
                        break
                    text, i = block(i)
                    if d2 == 'SPEC':
                        fs.spec = text
                    elif d2 == 'SIG':
                        fs.sig_override = text
                    elif d2.startswith('LOOP'):
                        fs.loops[int(d2.split()[1])] = text
                    elif d2.startswith('AT'):
                        fs.at.append((d2.split()[1], text))
                    elif d2.startswith('AFTER') or d2.startswith('BEFORE'):
                        mm = re.match(r'(AFTER|BEFORE)\s+(\d+)\s+`(.*)`\s*$', d2)
                        if not mm:
                            raise ExtractError('bad anchor directive: ' + d2)
                        fs.anchors.append((mm.group(1), int(mm.group(2)), mm.group(3), text))
                    else:
                        raise ExtractError('unknown FN sub-directive: ' + d2)
                self.do_fn(fs)
            elif d.startswith('STUBFN'):
                # //@STUBFN <file> <selector> from=<template.vrs>  : contract stub of a function verified in another unit
                parts = d.split()
                file = parts[1]
                rest = ' '.join(parts[2:])
                opts = dict(om.groups() for om in re.finditer(r'(from|rules|rename|attr)=(\S+)', rest))
                selector = re.sub(r'\s*(from|rules|rename|attr)=\S+', '', rest).strip()
                self.do_stubfn(file, selector, opts)
            elif d.startswith('STRUCT') or d.startswith('ENUM'):
                parts = d.split()
                file, name = parts[1], parts[2]
                opts = dict(p.split('=', 1) for p in parts[3:] if '=' in p)
                fields = ''
                while i < n:
                    s2 = lines[i].strip()
                    if not s2.startswith('//@'):
                        i += 1
                        continue
                    d2 = s2[3:].strip()
                    i += 1
                    if d2 == 'END':
                        break
                    text, i = block(i)
                    if d2 == 'FIELDS':
                        fields = text
                self.do_struct(file, name, opts, fields)
            elif d.startswith('BITFLAGS'):
                # //@BITFLAGS <Name> <int type> [all=<const expr>] : complete the hand-written model of a bitflags! type
                # with the remaining methods of the bitflags 2.x API (those not already defined above this line)
                parts = d.split()
                opts = dict(q.split('=', 1) for q in parts[3:] if '=' in q)
                self.do_bitflags(parts[1], parts[2], opts.get('all'))
            elif d.startswith('CENSUS'):
                # `//@CENSUS label file `pat` == N` (hard: a mismatch is a failed obligation) / `>= N`;
                # `//@CENSUS? ...` (soft: a structural assumption of the unit about the source; a mismatch means the proof
                # cannot be trusted as it stands = no verdict, never an alarm - such counts change under harmless rewrites)
                mm = re.match(r'CENSUS(\??)\s+(\S+)\s+(\S+)\s+`(.*)`\s*(==|>=)\s*(\d+)', d)
                if not mm:
                    raise ExtractError('bad CENSUS: ' + d)
                soft, label, file, pat, op, cnt = mm.groups()
                src, text, toks, items = self.source(file)
                # count in non-test part only
                body = self.nontest_text(file)
                got = len(rsx.find_matches(rsx.Pattern(pat), body))
                self.census.append({'label': label, 'file': file, 'pattern': pat, 'op': op, 'soft': bool(soft),
                                    'expected': int(cnt), 'found': got,
                                    'ok': (got == int(cnt)) if op == '==' else (got >= int(cnt))})
            elif d.startswith('LEMMA'):
                parts = d.split()
                pr = [x[6:] for x in parts[2:] if x.startswith('props=')]
                self.lemmas[parts[1]] = pr[0].split(',') if pr else []
            elif d == 'SITES':
                for nm in self.sites:
                    self.emit('pub uninterp spec fn %s() -> int;\n' % nm)
            elif d.startswith('#'):
                pass
            else:
                raise ExtractError('unknown directive: ' + d)

    def nontest_text(self, file):
        src, text, toks, items = self.source(file)
        out = list(text)
        for it in items:
            if it.test and it.kind in ('mod', 'fn', 'impl', 'struct', 'other', 'use', 'const'):
                for k in range(it.start, it.end):
                    if out[k] != '\n':
                        out[k] = ' '
        return ''.join(out)

    # -------- rule application ----------
    def apply_rules(self, text, scope, names, fnname):
        for rn in self.rule_order:
            r = self.rules[rn]
            if names is not None and rn not in names:
                continue
            if r.scope != 'all' and r.scope != scope:
                continue

            def extra(k, r=r):
                kind = re.sub(r'^(r\d+_)?(used_)?', '', r.name)
                kind = re.sub(r'_load$', '', kind)
                return {'SITEFN': '@SITE@', 'SITEK': '@SITEK:%s@' % kind, 'FN': fnname}
            text, c = rsx.rewrite(text, r.pat, r.sub, extra)
            r.count += c
        # device read sites are numbered in textual order within the function
        def number(m):
            self.site_counter += 1
            nm = 'SITE_%s_%d' % (fnname, self.site_counter)
            self.sites.append(nm)
            return nm + '()'
        text = re.sub(r'@SITE@', number, text)
        # sites named by what is read (per function and kind, in textual order): reordering reads of different
        # locations does not rename them
        kcount = {}
        def number_k(m):
            kind = m.group(1)
            kcount[kind] = kcount.get(kind, 0) + 1
            nm = 'SITE_%s_%s_%d' % (fnname, kind, kcount[kind])
            self.sites.append(nm)
            return nm + '()'
        text = re.sub(r'@SITEK:(\w+)@', number_k, text)
        return text

    def closure_baseline(self):
        """closure literals per extracted function on the tree the templates were written for (units/closures.json,
        regenerated with `extract.py --closure-baseline`)"""
        if getattr(self, '_clb', None) is None:
            p = os.path.join(self.units_dir, 'closures.json')
            try:
                self._clb = json.load(open(p)).get(self.name, {})
            except (OSError, ValueError):
                self._clb = None
            if self._clb is None:
                self._clb = {}
                self._clb_missing = True
        if getattr(self, '_clb_missing', False):
            return collections.defaultdict(lambda: 1 << 30)
        return self._clb

    def known_fn_names(self):
        """names of all functions the unit's templates define or extract (FN / STUBFN selectors, `fn x` in template text)"""
        if getattr(self, '_known', None) is None:
            known = set()
            seen = set()
            def scan(path):
                if path in seen or not os.path.exists(path):
                    return
                seen.add(path)
                t = open(path).read()
                for m in re.finditer(r'^\s*//@INCLUDE\s+(\S+)', t, re.M):
                    scan(os.path.join(self.units_dir, m.group(1)))
                for m in re.finditer(r'^\s*//@(?:FN|STUBFN)\s+\S+\s+(.*)$', t, re.M):
                    rest = m.group(1)
                    sel = re.sub(r'\s*(rules|rename|props|novac|attr|from)=\S+', '', rest).strip()
                    known.add(sel.rsplit('::', 1)[-1])
                    rn = re.search(r'rename=(\S+)', rest)
                    if rn:
                        known.add(rn.group(1))
                known.update(re.findall(r'\bfn\s+([A-Za-z_][A-Za-z_0-9]*)', t))
            scan(os.path.join(self.units_dir, self.name + '.vrs'))
            self._known = known
        return self._known

    # -------- mechanical inlining of helper functions the template does not know ----------
    def inline_unknown_helpers(self, fs, body, items, text):
        """A change extracted a few lines of an extracted function into a new private helper (or started calling one
        the template never needed).  If that helper is a straight-line, single-exit function of the same file (no
        `return`, no `?`, no loop, plain `name: Type` parameters), its call sites `self.h(args)` / `Self::h(args)` /
        `h(args)` are replaced by `{ let __h_p = arg; ...; let p: T = __h_p; ...; <helper body> }` - the text the helper
        was extracted from, so the unit's rules, anchors and contract apply as before.  Anything else is left alone (the
        function then ends up NOT VERIFIED, never falsely alarmed)."""
        for _depth in range(3):
            changed = False
            for h in sorted(self.inline_helpers):
                cands = [it for it in items if it.kind == 'fn' and it.name == h and it.has_body and not it.test]
                if len(cands) != 1:
                    continue
                it = cands[0]
                hsig = text[it.start:it.sig_end]
                hbody = strip_macros(strip_attrs_in_body(text[it.sig_end:it.end])).strip()
                hbody = peel_guard_returns(hbody)
                toks = [t.text for t in rsx.lex(hbody)]
                if any(t in ('return', '?', 'loop', 'while', 'for', 'break', 'continue') for t in toks):
                    continue
                flat = ' '.join(hsig.split())
                m = re.search(r'\bfn\s+%s\s*\(' % re.escape(h), flat)
                if not m or ' where ' in flat:
                    continue          # generic helpers / where clauses are not inlined
                depth, k = 1, m.end()
                while k < len(flat) and depth:
                    depth += {'(': 1, ')': -1}.get(flat[k], 0)
                    k += 1
                params = split_top(flat[m.end():k - 1])
                has_self = bool(params) and re.match(r'^(&\s*(mut\s+)?)?(mut\s+)?self$', params[0].strip()) is not None
                plain = []
                ok = True
                for prm in (params[1:] if has_self else params):
                    pm = re.match(r'^\s*(mut\s+)?([A-Za-z_][A-Za-z_0-9]*)\s*:\s*(.+?)\s*$', prm, re.S)
                    if not pm:
                        ok = False
                        break
                    plain.append((pm.group(1) or '', pm.group(2), pm.group(3)))
                if not ok:
                    continue
                inner = hbody[1:-1].strip('\n') if hbody.startswith('{') and hbody.endswith('}') else None
                if inner is None:
                    continue
                heads = (['self.%s' % h, '$id_recv.%s' % h] if has_self else []) + ['Self::%s' % h, h]
                for head in heads:
                    pat = rsx.Pattern(head + '($*args)')
                    while True:
                        ms = rsx.find_matches(pat, body)
                        # skip matches that are part of a longer path/receiver, e.g. `x.h(..)` for head `h`
                        def standalone(mm):
                            before = body[:mm[0]].rstrip()
                            # not `x.h(..)` on another receiver, not a longer path `a::h(..)`, not the definition itself
                            return not (before.endswith('.') or before.endswith('::') or re.search(r'\bfn$', before))
                        ms = [mm for mm in ms if standalone(mm)]
                        if not ms:
                            break
                        a, b, binds = ms[0]
                        args = split_top(binds.get('args', ''))
                        if len(args) != len(plain):
                            break
                        inner_here = inner
                        recv = binds.get('recv')
                        if recv and recv != 'self':
                            # method call on another simple receiver: the helper's `self` is that variable
                            if recv in [pn for (_, pn, _) in plain] or re.search(r'\blet\s+(?:mut\s+)?%s\b' % re.escape(recv), inner):
                                break
                            inner_here = re.sub(r'\bself\b', recv, inner)
                        pre = ''
                        for (mu, pn, ty), av in zip(plain, args):
                            if av.strip() == pn and not mu:
                                continue          # parameter bound to the caller's variable of the same name
                            pre += 'let __h_%s = %s; ' % (pn, av.strip())
                        for (mu, pn, ty), av in zip(plain, args):
                            if av.strip() == pn and not mu:
                                continue
                            pre += 'let %s%s: %s = __h_%s; ' % (mu, pn, ty, pn)
                        # a unit helper called as a whole statement is inlined without braces, so that ghost variables the
                        # template declares at anchors inside it stay visible - unless one of its locals would shadow a
                        # name the caller uses afterwards
                        rest = body[b:]
                        locals_ = set(re.findall(r'\blet\s+(?:mut\s+)?([A-Za-z_][A-Za-z_0-9]*)', inner_here)) | \
                            {pn for (mu, pn, ty), av in zip(plain, args) if not (av.strip() == pn and not mu)}
                        is_stmt = rest.lstrip().startswith(';') and re.search(r'[;{}]\s*$', body[:a].rstrip() + ' ' if body[:a].rstrip() else ';')
                        clash = any(re.search(r'\b%s\b' % re.escape(n), rest) for n in locals_)
                        if is_stmt and not clash and '->' not in flat[k:]:
                            body = body[:a] + pre + '\n' + inner_here + '\n' + rest.lstrip()[1:]
                        else:
                            body = body[:a] + '{ ' + pre + '\n' + inner_here + '\n }' + body[b:]
                        self.inlined.append((fs.selector, h))
                        changed = True
            if not changed:
                break
        return body

    def emit_extra_consts(self):
        """`const NAME: T = EXPR;` items of the source files this unit extracts from, imported verbatim because an
        extracted body refers to them and the template does not define them (e.g. a magic number was given a name)"""
        done = set()
        for name in self.extra_consts:
            for file in list(self.cache.keys()):
                body = self.nontest_text(file)
                m = re.search(r'^[ \t]*(?:pub(?:\([^)]*\))?\s+)?const\s+%s\s*:\s*([^=;]+?)\s*=\s*([^;]+);' % re.escape(name), body, re.M)
                if m and name not in done:
                    done.add(name)
                    self.emit('// imported mechanically from %s (referenced by an extracted body, not defined by the template)\n'
                              'pub const %s: %s = %s;\n' % (file, name, m.group(1), m.group(2)))
        self.extra_consts = []

    def do_bitflags(self, name, ty, allmask):
        if not hasattr(self, 'assumptions'):
            self.assumptions = []
        sofar = ''.join(self.out)
        have = set()
        for m in re.finditer(r'\bimpl\s+%s\s*\{' % re.escape(name), sofar):
            depth, k = 1, m.end()
            while k < len(sofar) and depth:
                depth += {'{': 1, '}': -1}.get(sofar[k], 0)
                k += 1
            have |= set(re.findall(r'\bfn\s+(\w+)', sofar[m.end():k]))
        N, T = name, ty
        ms = {
            'empty': 'pub fn empty() -> (r: %s) ensures r.0 == 0 { %s(0) }' % (N, N),
            'bits': 'pub fn bits(&self) -> (r: %s) ensures r == self.0 { self.0 }' % T,
            'from_bits_retain': 'pub fn from_bits_retain(bits: %s) -> (r: %s) ensures r.0 == bits { %s(bits) }' % (T, N, N),
            'is_empty': 'pub fn is_empty(&self) -> (r: bool) ensures r == (self.0 == 0) { self.0 == 0 }',
            'contains': 'pub fn contains(&self, o: %s) -> (r: bool) ensures r == (self.0 & o.0 == o.0) { self.0 & o.0 == o.0 }' % N,
            'intersects': 'pub fn intersects(&self, o: %s) -> (r: bool) ensures r == (self.0 & o.0 != 0) { self.0 & o.0 != 0 }' % N,
            'union': 'pub fn union(self, o: %s) -> (r: %s) ensures r.0 == self.0 | o.0 { %s(self.0 | o.0) }' % (N, N, N),
            'intersection': 'pub fn intersection(self, o: %s) -> (r: %s) ensures r.0 == self.0 & o.0 { %s(self.0 & o.0) }' % (N, N, N),
            'difference': 'pub fn difference(self, o: %s) -> (r: %s) ensures r.0 == self.0 & !o.0 { %s(self.0 & !o.0) }' % (N, N, N),
            'symmetric_difference': 'pub fn symmetric_difference(self, o: %s) -> (r: %s) ensures r.0 == self.0 ^ o.0 { %s(self.0 ^ o.0) }' % (N, N, N),
            'insert': 'pub fn insert(&mut self, o: %s) ensures final(self).0 == old(self).0 | o.0 { self.0 = self.0 | o.0; }' % N,
            'remove': 'pub fn remove(&mut self, o: %s) ensures final(self).0 == old(self).0 & !o.0 { self.0 = self.0 & !o.0; }' % N,
            'toggle': 'pub fn toggle(&mut self, o: %s) ensures final(self).0 == old(self).0 ^ o.0 { self.0 = self.0 ^ o.0; }' % N,
            'set': 'pub fn set(&mut self, o: %s, v: bool) ensures final(self).0 == (if v { old(self).0 | o.0 } else { old(self).0 & !o.0 }) '
                   '{ if v { self.0 = self.0 | o.0; } else { self.0 = self.0 & !o.0; } }' % N,
        }
        if allmask:
            A = '(%s)' % allmask
            ms.update({
                'all': 'pub fn all() -> (r: %s) ensures r.0 == %s { %s(%s) }' % (N, A, N, A),
                'is_all': 'pub fn is_all(&self) -> (r: bool) ensures r == (self.0 & %s == %s) { self.0 & %s == %s }' % (A, A, A, A),
                'from_bits_truncate': 'pub fn from_bits_truncate(bits: %s) -> (r: %s) ensures r.0 == bits & %s { %s(bits & %s) }' % (T, N, A, N, A),
                'from_bits': 'pub fn from_bits(bits: %s) -> (r: Option<%s>) ensures r == (if bits & !%s == 0 { Some(%s(bits)) } else { None::<%s> }) '
                             '{ if bits & !%s == 0 { Some(%s(bits)) } else { None } }' % (T, N, A, N, N, A, N),
                'complement': 'pub fn complement(self) -> (r: %s) ensures r.0 == !self.0 & %s { %s(!self.0 & %s) }' % (N, A, N, A),
            })
        body = ''.join('    %s\n' % v for k, v in ms.items() if k not in have)
        self.emit('// bitflags 2.x API of %s not written out above (generated by //@BITFLAGS; semantics as documented by the bitflags crate,\n'
                  '// validated on a real type by Kani harness c10_flag_models)\nimpl %s {\n%s}\n' % (N, N, body))
        self.assumptions.append('bitflags! type %s is modelled as a newtype over %s with the documented bitflags 2.x method semantics%s'
                                % (N, T, (' (all known bits = %s)' % allmask) if allmask else ''))

    # -------- items ----------
    def do_fn(self, fs):
        src, text, toks, items = self.source(fs.file)
        cands = rsx.select(items, fs.selector, 'fn')
        if len(cands) != 1:
            raise ExtractError('lost anchor: %s in %s matches %d items' % (fs.selector, fs.file, len(cands)))
        it = cands[0]
        if not it.has_body:
            raise ExtractError('%s has no body' % fs.selector)
        sig = text[it.start:it.sig_end]
        body = text[it.sig_end:it.end]
        src_line = src.count('\n', 0, it.start) + 1
        fname = fs.opts.get('rename') or fs.selector.rsplit('::', 1)[-1]
        self.site_counter = 0
        names = None
        if 'rules' in fs.opts:
            names = set(fs.opts['rules'].split(',')) if fs.opts['rules'] != 'none' else set()
        # --- signature
        sig = re.sub(r'^\s*pub(\s*\([^)]*\))?\s+', '', sig)
        sig = strip_attrs_in_body(sig)
        sig = self.apply_rules(sig, 'sig', names, fname)
        sig = name_result(sig).rstrip()
        if 'rename' in fs.opts:
            sig = re.sub(r'\bfn\s+' + re.escape(fs.selector.rsplit('::', 1)[-1]) + r'\b', 'fn ' + fs.opts['rename'], sig, count=1)
        if fs.sig_override is not None:
            sig = fs.sig_override.rstrip()
        # a parameter that a change left unused is conventionally renamed `_name`; the contract still speaks about `name`
        for um in re.finditer(r'\b_([a-z][a-z_0-9]*)\s*:', sig):
            nm = um.group(1)
            if re.search(r'\b%s\b' % re.escape(nm), fs.spec or '') and not re.search(r'\b_%s\b' % re.escape(nm), fs.spec or '') \
                    and not re.search(r'\b%s\s*:' % re.escape(nm), sig):
                sig = re.sub(r'\b_%s\b' % re.escape(nm), nm, sig)
                body = re.sub(r'\b_%s\b' % re.escape(nm), nm, body)
        # --- body
        body = strip_attrs_in_body(body)
        body = strip_macros(body)
        body0 = body
        if self.inline_helpers:
            body = self.inline_unknown_helpers(fs, body, items, text)
        body = self.apply_rules(body, 'body', names, fname)
        fs.valued = ('->' in sig) and not re.search(r'->\s*\(\s*r\s*:\s*\(\s*\)\s*\)', sig)
        stub_reason = None
        ncl = count_closures(body)
        self.closure_counts['%s|%s' % (fs.selector, fname)] = ncl
        if fs.selector in self.stub_out or fname in self.stub_out:
            stub_reason = 'construct not supported by the verifier'
        elif ncl > self.closure_baseline().get('%s|%s' % (fs.selector, fname), 0):
            # Verus knows nothing about the result of a closure literal that carries no specification; verifying the
            # function anyway could turn a harmless rewrite (`if c { Some(x) } else { None }` -> `c.then(|| x)`) into an alarm
            stub_reason = 'closure literal without a specification (the unit has no rule for it)'
        else:
            try:
                body = self.splice(fs, body)
            except ExtractError as e:
                if 'lost anchor' not in str(e):
                    raise
                stub_reason = str(e)
                # the anchored statement may have moved into a helper the template does not know: inline such helpers
                # (same file, called here, defined neither by the template nor by another //@FN) and try again
                known = self.known_fn_names()
                called = set(re.findall(r'\b([a-z_][a-z_0-9]*)\s*\(', body0))
                cand = {it2.name for it2 in items if it2.kind == 'fn' and it2.has_body and not it2.test} & called
                cand -= known
                cand -= self.inline_helpers
                if cand:
                    saved = set(self.inline_helpers)
                    self.inline_helpers = saved | cand
                    n_inl = len(self.inlined)
                    try:
                        b2 = self.inline_unknown_helpers(fs, body0, items, text)
                        if len(self.inlined) > n_inl:
                            self.site_counter = 0
                            b2 = self.apply_rules(b2, 'body', names, fname)
                            body = self.splice(fs, b2)
                            stub_reason = None
                    except ExtractError:
                        pass
                    finally:
                        self.inline_helpers = saved
        if stub_reason is not None:
            # per-function isolation: this body cannot be brought under the verifier as it stands (restructured code: a
            # proof anchor is gone, or an unsupported construct).  Its contract is kept as a stub so that the rest of the
            # unit still gets a verdict; the function itself is reported as NO-VERDICT, never as a violation.
            self.stubbed.append((fs.selector, stub_reason))
            start = self.line
            self.emit('// ---- NOT VERIFIED (%s): %s %s (line %d): contract kept as a stub ----\n' % (stub_reason.replace('\n', ' ')[:160], fs.file, fs.selector, src_line))
            self.emit('#[verifier::external_body]\n')
            self.emit(sig + '\n')
            if fs.spec.strip():
                self.emit(fs.spec.rstrip('\n') + '\n')
            self.emit('{ unimplemented!() }\n')
            props = fs.opts.get('props', '').split(',') if fs.opts.get('props') else []
            self.map.append({'gen_start': start, 'gen_end': self.line, 'selector': fs.selector,
                             'file': fs.file, 'src_line': src_line, 'props': props, 'name': fname, 'stubbed': True})
            return
        body = re.sub(r'\n[ \t]*(\n[ \t]*)+\n', '\n\n', body)
        start = self.line
        self.emit('// ---- extracted: %s %s (line %d) ----\n' % (fs.file, fs.selector, src_line))
        if self.vacuity:
            # in the twin file only the `__vac` copies are verified; originals keep their contracts for callers
            self.emit('#[verifier::external_body]\n')
        if fs.opts.get('attr'):
            self.emit('#[%s]\n' % fs.opts['attr'])
        self.emit(sig + '\n')
        if fs.spec.strip():
            self.emit(fs.spec.rstrip('\n') + '\n')
        self.emit(body + '\n')
        props = fs.opts.get('props', '').split(',') if fs.opts.get('props') else []
        self.map.append({'gen_start': start, 'gen_end': self.line, 'selector': fs.selector,
                         'file': fs.file, 'src_line': src_line, 'props': props, 'name': fname})
        self.functions.append({'selector': fs.selector, 'file': fs.file, 'line': src_line, 'props': props})
        if self.vacuity and fs.opts.get('novac') != '1' and '-> !' not in sig and ' for ' not in it.container:
            # vacuity twin: same function under another name with `ensures false` added; it must FAIL
            vsig = re.sub(r'\bfn\s+' + re.escape(fname) + r'\b', 'fn ' + fname + '__vac', sig, count=1)
            vspec = fs.spec
            if re.search(r'\bensures\b', vspec):
                vspec = re.sub(r'\bensures\b', 'ensures false,', vspec, count=1)
            else:
                vspec = vspec.rstrip('\n') + '\n    ensures false,\n'
            self.emit('// ---- vacuity twin of %s ----\n' % fs.selector)
            if fs.opts.get('attr'):
                self.emit('#[%s]\n' % fs.opts['attr'])
            self.emit(vsig + '\n' + vspec.rstrip('\n') + '\n' + body + '\n')
            self.twins.append(fname + '__vac')

    def do_stubfn(self, file, selector, opts):
        """Emit `selector` as an external_body stub carrying exactly the SPEC text it is verified against in
        template opts['from'] (so callers are checked against the proved contract, not a hand copy)."""
        tpath = os.path.join(self.units_dir, opts['from'])
        lines = open(tpath).read().split('\n')
        spec = None
        for i, ln in enumerate(lines):
            m = re.match(r'\s*//@FN\s+(\S+)\s+(.*)$', ln)
            if m and m.group(1) == file and re.sub(r'\s*(rules|rename|props|novac|attr)=\S+', '', m.group(2)).strip() == selector:
                j = i + 1
                buf = None
                while j < len(lines) and lines[j].strip() != '//@END':
                    t = lines[j].strip()
                    if t.startswith('//@'):
                        buf = [] if t == '//@SPEC' else (None if buf is None else buf)
                        if t != '//@SPEC' and buf is not None and spec is None:
                            spec = '\n'.join(buf); buf = None
                    elif buf is not None:
                        buf.append(lines[j])
                    j += 1
                if spec is None and buf is not None:
                    spec = '\n'.join(buf)
                break
        if spec is None:
            raise ExtractError('STUBFN: no //@FN %s %s with a //@SPEC in %s' % (file, selector, opts['from']))
        src, text, toks, items = self.source(file)
        cands = rsx.select(items, selector, 'fn')
        if len(cands) != 1:
            raise ExtractError('lost anchor: %s in %s matches %d items' % (selector, file, len(cands)))
        it = cands[0]
        sig = text[it.start:it.sig_end]
        fname = opts.get('rename') or selector.rsplit('::', 1)[-1]
        names = None
        if 'rules' in opts:
            names = set(opts['rules'].split(',')) if opts['rules'] != 'none' else set()
        sig = re.sub(r'^\s*pub(\s*\([^)]*\))?\s+', '', sig)
        sig = strip_attrs_in_body(sig)
        sig = self.apply_rules(sig, 'sig', names, fname)
        sig = name_result(sig).rstrip()
        for nm in re.findall(r'\b(SITE_\w+)\(\)', spec):
            if nm not in self.sites:
                self.sites.append(nm)
        self.emit('// ---- contract stub (verified in %s): %s %s ----\n' % (opts['from'], file, selector))
        self.emit('#[verifier::external_body]\n')
        if opts.get('attr'):
            self.emit('#[%s]\n' % opts['attr'])
        self.emit('pub ' + sig + '\n' + spec.rstrip('\n') + '\n{ unimplemented!() }\n')
        self.functions.append({'selector': selector, 'file': file, 'line': src.count('\n', 0, it.start) + 1, 'stub_of': opts['from']})

    def splice(self, fs, body):
        toks = rsx.lex(body)
        if not toks or toks[0].text != '{':
            raise ExtractError('body of %s does not start with {' % fs.selector)
        inserts = []  # (char_pos, order, text)
        # loops
        loops = []
        for i, t in enumerate(toks):
            if t.kind == 'ident' and t.text in LOOP_KW:
                # `for` in `impl X for Y` / HRTB cannot occur in bodies we extract; lifetimes `for<'a>` skipped
                if t.text == 'for' and i + 1 < len(toks) and toks[i + 1].text == '<':
                    continue
                # find body brace
                j = i + 1
                depth = 0
                while j < len(toks):
                    u = toks[j]
                    if u.kind == 'punct':
                        if u.text in '([':
                            depth += 1
                        elif u.text in ')]':
                            depth -= 1
                        elif u.text == '{' and depth == 0:
                            break
                    j += 1
                if j >= len(toks):
                    raise ExtractError('loop without body in ' + fs.selector)
                loops.append((i, j, rsx.match_close(toks, j)))
        for k, text in fs.loops.items():
            if k >= len(loops):
                raise ExtractError('lost anchor: %s has %d loops, annotation for loop %d'
                                   % (fs.selector, len(loops), k))
            inserts.append((toks[loops[k][1]].start, 0, '\n' + text.rstrip('\n') + '\n'))
        for where, text in fs.at:
            if where == 'fn.start':
                pos = toks[0].end
            elif where == 'fn.end':
                # before the tail expression, i.e. after the last depth-1 ';' or '}' statement end
                pos = self.tail_pos(toks, fs.valued)
            else:
                m = re.match(r'loop(\d+)\.(start|end)$', where)
                if not m:
                    raise ExtractError('bad AT position ' + where)
                k = int(m.group(1))
                if k >= len(loops):
                    raise ExtractError('lost anchor: %s has %d loops, AT %s' % (fs.selector, len(loops), where))
                pos = toks[loops[k][1]].end if m.group(2) == 'start' else toks[loops[k][2]].start
            inserts.append((pos, 1, '\n' + text.rstrip('\n') + '\n'))
        for mode, k, pat, text in fs.anchors:
            ms = rsx.find_matches(rsx.Pattern(pat), body)
            if k >= len(ms):
                raise ExtractError('lost anchor: %s: pattern `%s` has %d matches, wanted #%d'
                                   % (fs.selector, pat, len(ms), k))
            pos = ms[k][1] if mode == 'AFTER' else ms[k][0]
            inserts.append((pos, 2, '\n' + text.rstrip('\n') + '\n'))
        inserts.sort(key=lambda x: (-x[0], x[1]))
        for pos, _, text in inserts:
            body = body[:pos] + text + body[pos:]
        return body

    @staticmethod
    def pub_fields(body):
        """make every named field of a struct `pub` (visibility has no run-time meaning; Verus needs
        it for open spec functions)."""
        toks = rsx.lex(body)
        try:
            ob = next(i for i, t in enumerate(toks) if t.text == '{')
        except StopIteration:
            return body
        depth = 0
        ins = []
        expect_field = True
        for i in range(ob, len(toks)):
            t = toks[i]
            if t.kind == 'punct':
                if t.text in rsx.OPEN or t.text == '<':
                    depth += 1
                    continue
                if t.text in rsx.CLOSE or t.text == '>':
                    depth -= 1
                    continue
                if t.text == ',' and depth == 1:
                    expect_field = True
                    continue
            if depth == 1 and expect_field and t.kind == 'ident':
                if t.text != 'pub':
                    ins.append(t.start)
                expect_field = False
        for pos in reversed(ins):
            body = body[:pos] + 'pub ' + body[pos:]
        return body

    @staticmethod
    def tail_pos(toks, valued=True):
        """char position for `fn.end` insertions: just before the tail expression of the body, or at
        the very end of a body without one."""
        ends = [toks[0].end]     # statement ends at depth 1
        depth = 0
        n = len(toks)
        for i, t in enumerate(toks):
            if t.kind != 'punct':
                continue
            if t.text in rsx.OPEN:
                depth += 1
            elif t.text in rsx.CLOSE:
                depth -= 1
                if depth == 1 and t.text == '}' and i + 1 < n:
                    nxt = toks[i + 1].text
                    if nxt not in ('.', '?', 'else', 'as', '+', '-', '*', '/', '|', '&', '=', '<', '>', '==', ';', ',', ')'):
                        ends.append(t.end)
            elif t.text == ';' and depth == 1:
                ends.append(t.end)
        last_end = ends[-1]
        rest = [t for t in toks if t.start >= last_end][:-1]   # minus the closing brace of the fn
        if rest:
            return last_end          # there is a tail expression after the last statement
        if not valued or len(ends) < 2:
            return last_end          # unit body: the very end
        # body ends with a block-like expression that is the value: go before it
        # (find the previous statement end)
        closing = [t for t in toks if t.end == last_end][0]
        if closing.text == ';':
            return last_end
        return ends[-2]

    def do_struct(self, file, name, opts, fields):
        src, text, toks, items = self.source(file)
        cands = [it for it in rsx.select(items, name) if it.kind in ('struct', 'enum', 'union')]
        if len(cands) != 1:
            raise ExtractError('lost anchor: struct/enum %s in %s matches %d items' % (name, file, len(cands)))
        it = cands[0]
        body = text[it.start:it.end]
        body = re.sub(r'^\s*pub(\s*\([^)]*\))?\s+', '', body)
        body = strip_attrs_in_body(body)
        names = None
        if 'rules' in opts:
            names = set(opts['rules'].split(',')) if opts['rules'] != 'none' else set()
        body = self.apply_rules(body, 'sig', names, name)
        body = re.sub(r'\n[ \t]*(\n[ \t]*)+', '\n', body)
        if it.kind == 'struct' and opts.get('nopub') != '1':
            body = self.pub_fields(body)
        if fields.strip():
            k = body.rstrip().rfind('}')
            body = body[:k].rstrip() + '\n' + fields.rstrip('\n') + '\n}'
        derive = opts.get('derive')
        src_line = src.count('\n', 0, it.start) + 1
        self.emit('// ---- extracted: %s %s (line %d) ----\n' % (file, name, src_line))
        if derive:
            self.emit('#[derive(%s)]\n' % derive.replace('+', ', '))
        self.emit('pub ' + body.strip() + '\n')
        self.functions.append({'selector': name, 'file': file, 'line': src_line, 'kind': it.kind})


ASSUME_PATTERNS = [
    ('external_body', re.compile(r'#\[verifier::external_body\]\s*(?:pub\s+)?(?:proof\s+|exec\s+)?(?:unsafe\s+)?(fn\s+\w+|struct\s+\w+)')),
    ('assume_specification', re.compile(r'assume_specification\s*(?:<[^\]]*?>)?\s*\[([^\]]+)\]')),
    ('assume', re.compile(r'\bassume\s*\(([^;]{0,80})')),
    ('admit', re.compile(r'\badmit\s*\(\s*\)')),
    ('uninterp', re.compile(r'uninterp\s+spec\s+fn\s+(\w+)')),
    ('axiom', re.compile(r'(?:broadcast\s+)?(?:proof\s+fn|axiom\s+fn)\s+(axiom_\w+)')),
    ('external_type', re.compile(r'#\[verifier::external_type_specification\][\s\S]{0,80}?struct\s+(\w+)')),
]


def peel_guard_returns(block):
    """`{ if C { return V; } REST }` is `{ if C { V } else { REST } }` (and `{ if C { return; } REST }` is
    `{ if !(C) { REST } }`): leading guard clauses of a helper are turned into single-exit form, innermost last"""
    b = block.strip()
    if not (b.startswith('{') and b.endswith('}')):
        return block
    inner = b[1:-1]
    toks = rsx.lex(inner)
    if len(toks) < 6 or toks[0].text != 'if':
        return block
    # condition: tokens up to the first top-level `{`
    depth = 0
    j = 1
    while j < len(toks):
        t = toks[j].text
        if t in ('(', '['):
            depth += 1
        elif t in (')', ']'):
            depth -= 1
        elif t == '{' and depth == 0:
            break
        j += 1
    if j >= len(toks):
        return block
    k = rsx.match_close(toks, j)
    then_toks = toks[j + 1:k]
    if not then_toks or then_toks[0].text != 'return' or then_toks[-1].text != ';':
        return block
    if any(t.text in ('return', '{', '}') for t in then_toks[1:]):
        return block
    if k + 1 < len(toks) and toks[k + 1].text == 'else':
        return block
    cond = inner[toks[1].start:toks[j - 1].end]
    val = inner[then_toks[1].start:then_toks[-2].end] if len(then_toks) > 2 else ''
    rest = inner[toks[k].end:]
    rest_block = peel_guard_returns('{' + rest + '}')
    if val:
        return '{ if %s { %s } else %s }' % (cond, val, rest_block)
    return '{ if !(%s) %s }' % (cond, rest_block)


def count_closures(text):
    """number of closure literals `|args| body` / `|| body` / `move |..|` in a piece of Rust text (token heuristic: a `|` or
    `||` that starts an expression)"""
    toks = rsx.lex(text)
    n = 0
    i = 0
    starters = {'(', ',', '=', '{', ';', '=>', 'return', 'move', '[', '&&', ':', '+=', '?', '!'}
    while i < len(toks):
        t = toks[i].text
        if t in ('|', '||') and i > 0 and toks[i - 1].text in starters:
            n += 1
            if t == '|':
                # skip the parameter list up to the closing `|`
                i += 1
                while i < len(toks) and toks[i].text != '|':
                    i += 1
        i += 1
    return n


def split_top(argtext):
    """split a parameter / argument list at top-level commas"""
    out, depth, cur = [], 0, ''
    for ch in argtext:
        if ch in '([{<' :
            depth += 1
        elif ch in ')]}>':
            depth -= 1
        if ch == ',' and depth == 0:
            if cur.strip():
                out.append(cur)
            cur = ''
        else:
            cur += ch
    if cur.strip():
        out.append(cur)
    return out


def scan_assumptions(text):
    found = []
    clean = rsx.blank_comments(text)
    for kind, rx in ASSUME_PATTERNS:
        for m in rx.finditer(clean):
            g = m.group(1) if m.groups() else ''
            found.append('%s: %s' % (kind, ' '.join(g.split())))
    return sorted(set(found))


def build(unit_name, repo, units_dir, out_dir, vacuity=False, stub_out=None, extra_consts=None, inline_helpers=None):
    u = Unit(unit_name, repo, units_dir)
    u.vacuity = vacuity
    u.inline_helpers = set(inline_helpers or [])
    u.stub_out = set(stub_out or [])
    u.extra_consts = list(extra_consts or [])
    path = os.path.join(units_dir, unit_name + '.vrs')
    if not os.path.exists(path):
        raise ExtractError('no template ' + path)
    u.load(path)
    text = ''.join(u.out)
    os.makedirs(out_dir, exist_ok=True)
    gen = os.path.join(out_dir, unit_name + ('__vac' if vacuity else '') + '.rs')
    open(gen, 'w').write(text)
    info = {
        'unit': unit_name,
        'generated': gen,
        'functions': u.functions,
        'map': u.map,
        'rules': {n: u.rules[n].count for n in u.rule_order},
        'census': u.census,
        'assumptions': sorted(set(scan_assumptions(text) + getattr(u, 'assumptions', []))),
        'twins': u.twins,
        'stubbed': u.stubbed,
        'inlined': u.inlined,
        'closure_counts': u.closure_counts,
        'lemmas': u.lemmas,
        'sites': u.sites,
    }
    json.dump(info, open(os.path.join(out_dir, unit_name + ('__vac' if vacuity else '') + '.map.json'), 'w'), indent=1)
    return info


if __name__ == '__main__':
    import argparse
    ap = argparse.ArgumentParser()
    ap.add_argument('unit')
    ap.add_argument('--repo', default='/repo')
    ap.add_argument('--units', default=os.path.join(os.path.dirname(__file__), '..', 'units'))
    ap.add_argument('--out', default='/tmp/verif-scratch/units')
    a = ap.parse_args()
    try:
        info = build(a.unit, a.repo, a.units, a.out)
    except (ExtractError, rsx.LexError) as e:
        print('EXTRACT-ERROR: %s' % e)
        sys.exit(2)
    print(json.dumps({k: info[k] for k in ('generated', 'rules', 'census')}, indent=1))
