#!/usr/bin/env python3
"""closure_baseline.py — record, for every extracted function of every unit, how many closure literals its body has after
the unit's rewrite rules on the CURRENT /repo tree (units/closures.json).  A later tree with more of them in a function
makes that function NOT VERIFIED (no verdict) instead of being verified with an unspecified closure."""
import glob, json, os, sys
sys.path.insert(0, os.path.dirname(os.path.abspath(__file__)))
import extract, rsx
VERIF = os.path.abspath(os.path.join(os.path.dirname(__file__), '..'))
out = {}
p = os.path.join(VERIF, 'units', 'closures.json')
if os.path.exists(p):
    os.remove(p)
import props
units = sorted({u for c in props.PROPS.values() for u in c.get('units', []) + [d['unit'] for d in c.get('dep_units', [])]})
for u in units:
    try:
        info = extract.build(u, '/repo', os.path.join(VERIF, 'units'), '/tmp/verif-scratch-clb')
        out[u] = {k: v for k, v in info['closure_counts'].items() if v}
    except (extract.ExtractError, rsx.LexError) as e:
        print('unit', u, 'failed:', e)
json.dump(out, open(p, 'w'), indent=1, sort_keys=True)
print('units:', len(units), 'functions with closure literals:', sum(len(v) for v in out.values()))
