#!/usr/bin/env python3
"""Regenerates section 10 of DESIGN.md from docs/design_section10.md (hand-written) + the seed table (generated)."""
import os, subprocess
V = os.path.abspath(os.path.join(os.path.dirname(__file__), '..'))
d = open(os.path.join(V, 'DESIGN.md')).read()
marker = '\n---------------------------------------------------------------------------\n\n## 10. As built'
if marker in d:
    d = d[:d.index(marker)]
sec = open(os.path.join(V, 'docs', 'design_section10.md')).read()
table = subprocess.run(['python3', os.path.join(V, 'tools', 'seed_table.py')], capture_output=True, text=True).stdout
open(os.path.join(V, 'DESIGN.md'), 'w').write(d.rstrip('\n') + '\n' + sec.replace('@SEEDTABLE@', table))
