//! Kani harnesses over the real sound driver types (C20).  Appended to the scratch copy of src/device/sound.rs as a
//! child module.  All harnesses here have full-domain symbolic inputs and no input-dependent loop (only fixed
//! <= 32-iteration comparisons): COMPLETE proofs.  They validate the hand-written memory images (`Wire::wire` /
//! `Wire::decodes`), the conversion stubs (`hdr_of_code`, `hdr_of_status`, `hdr_of_item`, `u8_of_format`,
//! `u8_of_rate`, `u32_is_multiple_of` (bounded)), the bitflags models and the constants of units/cmd_sound.vrs against the real
//! types.  (No scenario harness: the driver's four 32-entry queues are beyond what CBMC handles here; see report.)
#![allow(dead_code, missing_docs, clippy::undocumented_unsafe_blocks, static_mut_refs)]
extern crate alloc;
use super::*;

fn put32(b: &mut [u8], off: usize, v: u32) { let x = v.to_le_bytes(); b[off] = x[0]; b[off + 1] = x[1]; b[off + 2] = x[2]; b[off + 3] = x[3]; }
fn le32(b: &[u8], o: usize) -> u32 { u32::from_le_bytes([b[o], b[o + 1], b[o + 2], b[o + 3]]) }
fn le64(b: &[u8], o: usize) -> u64 { u64::from_le_bytes([b[o], b[o + 1], b[o + 2], b[o + 3], b[o + 4], b[o + 5], b[o + 6], b[o + 7]]) }
fn eq_n(a: &[u8], b: &[u8], n: usize) -> bool {
    if a.len() != n || b.len() < n { return false; }
    let mut i = 0;
    let mut ok = true;
    while i < n {
        if a[i] != b[i] { ok = false; }
        i += 1;
    }
    ok
}

/// C20 K-complete: request / status codes, the `From` conversions the Verus unit stubs, sizes, queue indices, the
/// bitflags models, `is_multiple_of` for ALL u32 pairs.
#[kani::proof]
fn c20_snd_consts() {
    assert!(QUEUE_SIZE == 32 && CONTROL_QUEUE_IDX == 0 && EVENT_QUEUE_IDX == 1 && TX_QUEUE_IDX == 2 && RX_QUEUE_IDX == 3, "C20: queue indices");
    assert!(VIRTIO_SND_CHMAP_MAX_SIZE == 18, "C20: channel map size");
    assert!(CommandCode::RJackInfo as u32 == 1 && CommandCode::RJackRemap as u32 == 2 && CommandCode::RPcmInfo as u32 == 0x100
        && CommandCode::RPcmSetParams as u32 == 0x101 && CommandCode::RPcmPrepare as u32 == 0x102 && CommandCode::RPcmRelease as u32 == 0x103
        && CommandCode::RPcmStart as u32 == 0x104 && CommandCode::RPcmStop as u32 == 0x105 && CommandCode::RChmapInfo as u32 == 0x200
        && CommandCode::SOk as u32 == 0x8000, "C20: VIRTIO_SND_R_* / VIRTIO_SND_S_OK codes");
    assert!(VirtIOSndHdr::from(CommandCode::RPcmSetParams).command_code == 0x101 && VirtIOSndHdr::from(CommandCode::RPcmPrepare).command_code == 0x102
        && VirtIOSndHdr::from(CommandCode::RPcmRelease).command_code == 0x103 && VirtIOSndHdr::from(CommandCode::RPcmStart).command_code == 0x104
        && VirtIOSndHdr::from(CommandCode::RPcmStop).command_code == 0x105 && VirtIOSndHdr::from(CommandCode::RJackRemap).command_code == 2,
        "C20: From<CommandCode> for VirtIOSndHdr");
    assert!(VirtIOSndHdr::from(RequestStatusCode::Ok).command_code == 0x8000, "C20: From<RequestStatusCode> for VirtIOSndHdr");
    assert!(VirtIOSndHdr::from(ItemInformationRequestType::RJackInfo).command_code == 1
        && VirtIOSndHdr::from(ItemInformationRequestType::RPcmInfo).command_code == 0x100
        && VirtIOSndHdr::from(ItemInformationRequestType::RChmapInfo).command_code == 0x200, "C20: From<ItemInformationRequestType> for VirtIOSndHdr");
    assert!(u8::from(PcmFormat::ImaAdpcm) == 0 && u8::from(PcmFormat::S16) == 5 && u8::from(PcmFormat::U32) == 18
        && u8::from(PcmFormat::Iec958Subframe) == 24 && u8::from(PcmFormat::S16) == PcmFormat::S16 as u8, "C20: From<PcmFormat> for u8 is the discriminant");
    assert!(u8::from(PcmRate::Rate5512) == 0 && u8::from(PcmRate::Rate44100) == 6 && u8::from(PcmRate::Rate384000) == 13
        && u8::from(PcmRate::Rate48000) == PcmRate::Rate48000 as u8, "C20: From<PcmRate> for u8 is the discriminant");
    assert!(core::mem::size_of::<VirtIOSndHdr>() == 4 && core::mem::size_of::<VirtIOSndQueryInfo>() == 16
        && core::mem::size_of::<VirtIOSndJackInfo>() == 24 && core::mem::size_of::<VirtIOSndPcmInfo>() == 32
        && core::mem::size_of::<VirtIOSndChmapInfo>() == 24 && core::mem::size_of::<VirtIOSndPcmHdr>() == 8
        && core::mem::size_of::<VirtIOSndPcmSetParams>() == 24 && core::mem::size_of::<VirtIOSndJackHdr>() == 8
        && core::mem::size_of::<VirtIOSndJackRemap>() == 16 && core::mem::size_of::<VirtIOSndEvent>() == 8, "C20: structure sizes");
    let b: u32 = kani::any();
    assert!(PcmFeatures::from_bits_retain(b).bits() == b, "C20: PcmFeatures bits model");
    assert!(JackFeatures::REMAP.bits() == 1 && JackFeatures::from_bits_retain(b).contains(JackFeatures::REMAP) == (b & 1 == 1), "C20: JackFeatures::REMAP model");
    let w: u64 = kani::any();
    assert!(PcmRates::from_bits_retain(w).bits() == w && PcmFormats::from_bits_retain(w).bits() == w, "C20: PcmRates / PcmFormats bits model");
    assert!(PCMState::default() == PCMState::SetParams, "C20: PCMState::default()");
}

/// C20 K-bounded: `u32::is_multiple_of` (the stub `u32_is_multiple_of`) for ALL pairs below 4096, plus the zero
/// divisor for ALL dividends.  (The full 32-bit equivalence of two division circuits does not finish in CBMC here.)
#[kani::proof]
fn c20_snd_is_multiple_of() {
    let (a, b): (u32, u32) = (kani::any(), kani::any());
    assert!(a.is_multiple_of(0) == (a == 0), "C20: is_multiple_of(0) model");
    kani::assume(a < 4096 && b < 4096);
    assert!(a.is_multiple_of(b) == if b == 0 { a == 0 } else { a % b == 0 }, "C20: is_multiple_of model");
}

/// C20 K-complete: request images for ALL field values: query info, PCM header, set-params, jack remap.
#[kani::proof]
#[kani::unwind(34)]
fn c20_snd_layout_req() {
    let (code, a, b, c, d): (u32, u32, u32, u32, u32) = (kani::any(), kani::any(), kani::any(), kani::any(), kani::any());
    let (ch, fmt, rate, pad): (u8, u8, u8, u8) = (kani::any(), kani::any(), kani::any(), kani::any());
    let mut img = [0u8; 32];
    put32(&mut img, 0, code); put32(&mut img, 4, a); put32(&mut img, 8, b); put32(&mut img, 12, c);
    let q = VirtIOSndQueryInfo { hdr: VirtIOSndHdr { command_code: code }, start_id: a, count: b, size: c };
    assert!(eq_n(q.as_bytes(), &img, 16), "C20: query info image (code, start_id, count, size)");
    let h = VirtIOSndPcmHdr { hdr: VirtIOSndHdr { command_code: code }, stream_id: a };
    assert!(eq_n(h.as_bytes(), &img, 8), "C20: PCM header image (code, stream_id)");
    let r = VirtIOSndJackRemap { hdr: VirtIOSndJackHdr { hdr: VirtIOSndHdr { command_code: code }, jack_id: a }, association: b, sequence: c };
    assert!(eq_n(r.as_bytes(), &img, 16), "C20: jack remap image (code, jack_id, association, sequence)");
    put32(&mut img, 16, d);
    img[20] = ch; img[21] = fmt; img[22] = rate; img[23] = pad;
    let p = VirtIOSndPcmSetParams { hdr: VirtIOSndPcmHdr { hdr: VirtIOSndHdr { command_code: code }, stream_id: a },
        buffer_bytes: b, period_bytes: c, features: d, channels: ch, format: fmt, rate, _padding: pad };
    assert!(eq_n(p.as_bytes(), &img, 24), "C20: set-params image (code, stream_id, buffer_bytes, period_bytes, features, channels, format, rate, padding)");
    let raw: [u8; 8] = kani::any();
    assert!(VirtIOSndHdr::read_from_prefix(&raw).unwrap().0.command_code == le32(&raw, 0), "C20: response status decoding");
}

/// C20 K-complete: item information decoding (`read_from_bytes`) for ALL item contents: jack info (24 bytes), PCM info
/// (32 bytes), channel map info (24 bytes); a slice of another length is refused.
#[kani::proof]
fn c20_snd_layout_info() {
    let raw: [u8; 32] = kani::any();
    let j = VirtIOSndJackInfo::read_from_bytes(&raw[..24]).unwrap();
    assert!(j.hdr.hda_fn_nid == le32(&raw, 0) && j.features == le32(&raw, 4) && j.hda_reg_defconf == le32(&raw, 8)
        && j.hda_reg_caps == le32(&raw, 12) && j.connected == raw[16], "C20: jack info decoding");
    let p = VirtIOSndPcmInfo::read_from_bytes(&raw).unwrap();
    assert!(p.hdr.hda_fn_nid == le32(&raw, 0) && p.features == le32(&raw, 4) && p.formats == le64(&raw, 8) && p.rates == le64(&raw, 16)
        && p.direction == raw[24] && p.channels_min == raw[25] && p.channels_max == raw[26], "C20: PCM info decoding");
    let c = VirtIOSndChmapInfo::read_from_bytes(&raw[..24]).unwrap();
    let i: usize = kani::any();
    kani::assume(i < 18);
    assert!(c.hdr.hda_fn_nid == le32(&raw, 0) && c.direction == raw[4] && c.channels == raw[5] && c.positions[i] == raw[6 + i], "C20: channel map info decoding");
    assert!(VirtIOSndJackInfo::read_from_bytes(&raw[..23]).is_err() && VirtIOSndPcmInfo::read_from_bytes(&raw[..31]).is_err(), "C20: wrong length refused");
}

/// C20 K-bounded (complete for the stated shape): the hand model `Chunks::next` of units/cmd_sound.vrs against the
/// real `core::slice::Chunks`: for a 7-byte slice and ALL chunk sizes 1..=8, the k-th item is bytes
/// k*n .. min((k+1)*n, 7), and the iterator ends exactly when the slice is used up.  Also the stubs `u32_to_le_bytes`,
/// `u32_of_code`, `statuses_zeroed`.  Bounds: slice length 7 (ALL contents), at most 7 chunks.
#[kani::proof]
#[kani::unwind(36)]
fn c20_snd_chunks() {
    let data: [u8; 7] = kani::any();
    let n: usize = kani::any();
    kani::assume(1 <= n && n <= 8);
    let mut it = data.chunks(n);
    let mut off = 0usize;
    let mut k = 0usize;
    while k < 8 {
        let c = it.next();
        if off >= 7 {
            assert!(c.is_none(), "C20: chunks continues past the end");
        } else {
            let want = if 7 - off < n { 7 - off } else { n };
            let c = c.unwrap();
            assert!(c.len() == want && c.as_ptr() == data[off..].as_ptr(), "C20: chunk k is not bytes k*n .. min((k+1)*n, len)");
            assert!(off == k * n, "C20: chunk offset");
            off += want;
        }
        k += 1;
    }
    let x: u32 = kani::any();
    let b = x.to_le_bytes();
    assert!(b[0] == x as u8 && b[1] == (x >> 8) as u8 && b[2] == (x >> 16) as u8 && b[3] == (x >> 24) as u8, "C20: to_le_bytes");
    assert!(u32::from(CommandCode::SOk) == 0x8000, "C20: From<CommandCode> for u32");
    let st: [VirtIOSndPcmStatus; QUEUE_SIZE as usize] = array::from_fn(|_| Default::default());
    let i: usize = kani::any();
    kani::assume(i < 32);
    assert!(st[i].status == 0 && st[i].latency_bytes == 0 && core::mem::size_of::<VirtIOSndPcmStatus>() == 8, "C20: zeroed status array");
    let raw: [u8; 8] = kani::any();
    let mut s = VirtIOSndPcmStatus::default();
    s.as_mut_bytes().copy_from_slice(&raw);
    assert!(s.status == le32(&raw, 0) && s.latency_bytes == le32(&raw, 4), "C20: PCM status decoding");
}
