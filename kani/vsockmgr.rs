//! Kani harnesses of unit `vsockmgr` (C18) over the real `get_connection_for_event`, `VsockConnectionManager::
//! {listen, unlisten, is_local_port_used, is_connection_established, recv_buffer_available_bytes}`.
//! Child module of `crate::device::socket::connectionmanager` (private items visible); appended to the scratch
//! copy of src/device/socket/connectionmanager.rs.
//!
//! Purpose: they validate, on the unmodified code, the rewrite rules / contract stubs the Verus unit relies on
//!   * rule `rm_find_idx` (`iter_mut().enumerate().find(..)` == first index satisfying the predicate),
//!   * rule `rm_any_idx` (`iter().any(..)`), stubs `ports_contains` (`<[u32]>::contains`) and `ports_remove`
//!     (`Vec::retain(|p| *p != port)`), stub `vec_last_mut`.
//! All are bounded stand-ins (tables of at most 3 connections / 2 listening ports, symbolic contents).
//! The dispatch of `poll` itself is NOT exercised here: a `VirtIOSocket` can only be built inside module
//! `vsock` (private fields), see docs/builders/vsockmgr.report.md section 5.
#![allow(dead_code, missing_docs, clippy::undocumented_unsafe_blocks)]
use super::*;
use crate::device::socket::vsock::VsockBufferStatus;
use crate::verif_support::*;
use crate::Error;

fn mk_conn(cid: u64, rport: u32, lport: u32) -> Connection {
    Connection::new(VsockAddr { cid, port: rport }, lport, 4)
}

fn any_event_type() -> VsockEventType {
    let k: u8 = kani::any();
    match k {
        0 => VsockEventType::ConnectionRequest,
        1 => VsockEventType::Connected,
        2 => VsockEventType::Disconnected { reason: DisconnectReason::Reset },
        3 => VsockEventType::Disconnected { reason: DisconnectReason::Shutdown },
        4 => VsockEventType::Received { length: kani::any() },
        5 => VsockEventType::CreditRequest,
        _ => VsockEventType::CreditUpdate,
    }
}

/// K<= (tables of 0..=3 connections with symbolic addresses, symbolic event of any type, symbolic guest cid):
/// `get_connection_for_event` returns the FIRST connection whose (peer address, local port) equal the packet's
/// (source, destination port) provided the packet is addressed to this guest, with its index - or None.
/// The table is otherwise untouched.  Validates rule `rm_find_idx` of the Verus unit.
#[kani::proof]
#[kani::unwind(6)]
fn k18_get_connection_for_event() {
    let len: usize = kani::any();
    kani::assume(len <= 3);
    let mut v: Vec<Connection> = Vec::new();
    let mut keys = [(0u64, 0u32, 0u32); 3];
    let mut i = 0;
    while i < len {
        keys[i] = (kani::any(), kani::any(), kani::any());
        v.push(mk_conn(keys[i].0, keys[i].1, keys[i].2));
        i += 1;
    }
    let guest_cid: u64 = kani::any();
    let event = VsockEvent {
        source: VsockAddr { cid: kani::any(), port: kani::any() },
        destination: VsockAddr { cid: kani::any(), port: kani::any() },
        buffer_status: VsockBufferStatus { buffer_allocation: kani::any(), forward_count: kani::any() },
        event_type: any_event_type(),
    };
    // reference: first index i with  source == peer(i)  &&  destination == (guest_cid, local port(i))
    let mut first = len;
    let mut i = len;
    while i > 0 {
        i -= 1;
        if keys[i].0 == event.source.cid && keys[i].1 == event.source.port && event.destination.cid == guest_cid
            && keys[i].2 == event.destination.port
        {
            first = i;
        }
    }
    match get_connection_for_event(&mut v, &event, guest_cid) {
        Some((idx, c)) => {
            assert!(first < len && idx == first, "C18: packet not attributed to the first connection with its peer address and local port");
            assert!(c.info.dst == event.source && c.info.src_port == event.destination.port, "C18: packet attributed to a foreign connection");
        }
        None => {
            assert!(first == len, "C18: packet of a known connection treated as unknown");
        }
    }
    assert!(v.len() == len, "C18: lookup changed the table size");
    let mut i = 0;
    while i < len {
        assert!(
            v[i].info.dst.cid == keys[i].0 && v[i].info.dst.port == keys[i].1 && v[i].info.src_port == keys[i].2,
            "C18: lookup changed a table entry"
        );
        i += 1;
    }
}

/// A manager of which only the tables exist; `driver` is left uninitialised (none of the paths exercised below
/// touches it: listen / unlisten / is_local_port_used / is_connection_established / recv_buffer_available_bytes
/// never do).
struct TablesOnly(core::mem::MaybeUninit<VsockConnectionManager<KHal, KTransport, 64>>);
impl TablesOnly {
    fn new(connections: Vec<Connection>, ports: Vec<u32>) -> Self {
        let mut m = core::mem::MaybeUninit::<VsockConnectionManager<KHal, KTransport, 64>>::uninit();
        unsafe {
            let p = m.as_mut_ptr();
            core::ptr::addr_of_mut!((*p).connections).write(connections);
            core::ptr::addr_of_mut!((*p).listening_ports).write(ports);
            core::ptr::addr_of_mut!((*p).per_connection_buffer_capacity).write(4);
        }
        TablesOnly(m)
    }
    fn mgr(&mut self) -> &mut VsockConnectionManager<KHal, KTransport, 64> {
        unsafe { &mut *self.0.as_mut_ptr() }
    }
}

/// K<= (exactly 2 listening ports with symbolic numbers - equal numbers allowed, so "listed twice", "once" and
/// "not listed" are all covered; symbolic port arguments p != q): after `listen(p)` port p is listened on and
/// the status of q is unchanged.  Validates the Verus stub `ports_contains` and the contract of `listen`.
#[kani::proof]
#[kani::unwind(5)]
fn k18_listen() {
    let a: u32 = kani::any();
    let b: u32 = kani::any();
    let mut v: Vec<u32> = Vec::new();
    v.push(a);
    v.push(b);
    let mut t = TablesOnly::new(Vec::new(), v);
    let p: u32 = kani::any();
    let q: u32 = kani::any();
    kani::assume(q != p);
    let q_before = a == q || b == q;
    assert!(t.mgr().listening_ports.contains(&q) == q_before, "C18: reference reading of the port list");
    t.mgr().listen(p);
    assert!(t.mgr().listening_ports.contains(&p), "C18: listen(p) does not make p a listening port");
    assert!(t.mgr().listening_ports.contains(&q) == q_before, "C18: listen(p) changed another port");
    assert!(t.mgr().connections.is_empty(), "C18: listen touched the connection table");
}

/// K<= (same shape): after `unlisten(p)` port p is not listened on (even if it was listed twice) and the status
/// of q is unchanged.  Validates the Verus stub `ports_remove` (`Vec::retain(|x| *x != p)`) and the contract of `unlisten`.
#[kani::proof]
#[kani::unwind(5)]
fn k18_unlisten() {
    let a: u32 = kani::any();
    let b: u32 = kani::any();
    let mut v: Vec<u32> = Vec::new();
    v.push(a);
    v.push(b);
    let mut t = TablesOnly::new(Vec::new(), v);
    let p: u32 = kani::any();
    let q: u32 = kani::any();
    kani::assume(q != p);
    let q_before = a == q || b == q;
    t.mgr().unlisten(p);
    let l = &t.mgr().listening_ports;
    let n = l.len();
    assert!(n <= 2, "C18: unlisten added ports");
    let has_p = (n > 0 && l[0] == p) || (n > 1 && l[1] == p);
    let has_q = (n > 0 && l[0] == q) || (n > 1 && l[1] == q);
    assert!(!has_p, "C18: unlisten(p) leaves p listening");
    assert!(has_q == q_before, "C18: unlisten(p) changed another port");
    assert!(t.mgr().connections.is_empty(), "C18: unlisten touched the connection table");
}

/// K<= (table of exactly 2 connections, symbolic addresses - equal keys allowed): a query on an unknown connection
/// fails with `NotConnected`, on a known one it succeeds, without any effect on the table; `is_local_port_used` is
/// exactly "some connection has this local port" (no listeners here; validates rule `rm_any_idx`, the shape
/// `self.connections.iter().any(..)` that `connect` also uses).
/// NOT here: `connect` itself (duplicate -> ConnectionExists) and send / recv / shutdown / force_close /
/// update_credit on unknown connections - with them CBMC has to encode the transmit path below an uninitialised
/// driver and runs out of memory (30 GB, 240 s); these are proved by Verus (units `vsockmgr`, `vsock`).
#[kani::proof]
#[kani::unwind(5)]
fn k18_exists_not_connected() {
    let keys: [(u64, u32, u32); 2] = [(kani::any(), kani::any(), kani::any()), (kani::any(), kani::any(), kani::any())];
    let mut v: Vec<Connection> = Vec::new();
    v.push(mk_conn(keys[0].0, keys[0].1, keys[0].2));
    v.push(mk_conn(keys[1].0, keys[1].1, keys[1].2));
    let mut t = TablesOnly::new(v, Vec::new());
    let peer = VsockAddr { cid: kani::any(), port: kani::any() };
    let lport: u32 = kani::any();
    let known = (keys[0].0 == peer.cid && keys[0].1 == peer.port && keys[0].2 == lport)
        || (keys[1].0 == peer.cid && keys[1].1 == peer.port && keys[1].2 == lport);
    let port_used = keys[0].2 == lport || keys[1].2 == lport;
    assert!(t.mgr().is_local_port_used(lport) == port_used, "C18: is_local_port_used");
    if known {
        let r = t.mgr().is_connection_established(peer, lport);
        assert!(r == Ok(false), "C18: known connection not found");
    } else {
        let r = t.mgr().is_connection_established(peer, lport);
        assert!(r == Err(Error::SocketDeviceError(SocketError::NotConnected)), "C18: query of an unknown connection must fail with NotConnected");
        let r = t.mgr().recv_buffer_available_bytes(peer, lport);
        assert!(r == Err(Error::SocketDeviceError(SocketError::NotConnected)), "C18: query of an unknown connection must fail with NotConnected");
    }
    assert!(t.mgr().connections.len() == 2, "C18: failed operation changed the table size");
    let mut i = 0;
    while i < 2 {
        let c = &t.mgr().connections[i];
        assert!(
            c.info.dst.cid == keys[i].0 && c.info.dst.port == keys[i].1 && c.info.src_port == keys[i].2 && !c.established
                && !c.peer_requested_shutdown && c.buffer.used() == 0,
            "C18: failed operation changed a table entry"
        );
        i += 1;
    }
}

/// K<= (vector of 1..=3 connections): `Vec::last_mut().unwrap()` is the last element (stub `vec_last_mut`), and
/// `swap_remove(i)` removes exactly entry i, the last entry taking its slot (the frame `removed_at` of the unit).
#[kani::proof]
#[kani::unwind(6)]
fn k18_last_mut_swap_remove() {
    let len: usize = kani::any();
    kani::assume(1 <= len && len <= 3);
    let mut v: Vec<Connection> = Vec::new();
    let mut i = 0;
    while i < len {
        v.push(mk_conn(i as u64, 0, 0));
        i += 1;
    }
    v.last_mut().unwrap().established = true;
    assert!(v[len - 1].established, "C18: last_mut is not the last entry");
    let k: usize = kani::any();
    kani::assume(k < len);
    v.swap_remove(k);
    assert!(v.len() == len - 1, "C18: swap_remove length");
    let mut j = 0;
    while j < len - 1 {
        let want = if j == k { (len - 1) as u64 } else { j as u64 };
        assert!(v[j].info.dst.cid == want, "C18: swap_remove removed or moved the wrong entry");
        j += 1;
    }
}
