//! C13 Kani harnesses on the real `VirtIOConsole::size` and the console `Config` layout
//! (child module of `crate::device::console`, appended to the scratch copy of src/device/console.rs).
#![allow(dead_code, missing_docs, clippy::undocumented_unsafe_blocks)]
use super::*;
use crate::transport::DeviceType;
use crate::verif_support::KHal;

#[path = "/verif/kani/config_script.rs"]
mod script;
use script::*;

/// C13 K (loop-free, complete): offsets / widths of cols, rows and the accesses `read_config!` makes.
#[kani::proof]
#[kani::unwind(14)]
fn c13_offsets_console() {
    assert!(core::mem::offset_of!(Config, cols) == 0, "C13: offset_of!(console Config, cols) != 0");
    assert!(core::mem::offset_of!(Config, rows) == 2, "C13: offset_of!(console Config, rows) != 2");
    assert!(core::mem::offset_of!(Config, emerg_wr) == 8, "C13: offset_of!(console Config, emerg_wr) != 8");
    assert!(size_of::<ReadOnly<u16>>() == 2 && align_of::<ReadOnly<u16>>() == 2, "C13: ReadOnly<u16> is not a 2-byte, 2-aligned register");
    assert!(size_of::<WriteOnly<u32>>() == 4 && align_of::<WriteOnly<u32>>() == 4, "C13: WriteOnly<u32> is not a 4-byte, 4-aligned register");
    let t = ScriptT::any(DeviceType::Console);
    let c: u16 = read_config!(t, Config, cols).unwrap();
    let r: u16 = read_config!(t, Config, rows).unwrap();
    assert!(t.time() == 2 && t.acc_at(0) == Acc::Read(0, 2) && t.acc_at(1) == Acc::Read(2, 2), "C13: read_config! accesses differ from (0,2),(2,2)");
    assert!(c == t.u16_at(0, 0) && r == t.u16_at(1, 2), "C13: read_config! value differs from the device bytes");
}

/// C13 K<= (BOUND: STEPS = 12 scripted accesses; two 2-entry queues built by the real constructor): the
/// size returned by the real `VirtIOConsole::size` is (cols, rows) of ONE configuration, or None without any
/// configuration access when SIZE was not negotiated.
#[kani::proof]
#[kani::unwind(18)]
fn c13_console_size_untorn() {
    let t = ScriptT::any(DeviceType::Console);
    t.assume_honours_generation();
    let cfg = t.cfg;
    let console = VirtIOConsole::<KHal, ScriptT>::new(t).unwrap();
    assert!(console.transport.time() == 0, "C13: VirtIOConsole::new touched configuration space");
    let r = console.size().unwrap();
    let n = console.transport.time();
    match r {
        None => assert!(n == 0, "C13: size() == None but configuration space was accessed"),
        Some(sz) => {
            assert!(n >= 4 && n % 4 == 0, "C13: unexpected number of configuration accesses in size()");
            let k = n - 4;
            assert!(sz.columns == u16::from_le_bytes([cfg[k][0], cfg[k][1]]) && sz.rows == u16::from_le_bytes([cfg[k][2], cfg[k][3]]),
                "C13: torn console size: columns and rows come from two configuration generations");
        }
    }
    core::mem::forget(console);
}
