//! Kani harnesses over the real entropy driver (C20).  Appended to the scratch copy of src/device/rng.rs as a child
//! module.
//! * `c20_rng_entropy`: BOUNDED stand-in (bounds at the harness): the real driver on the real queue against a
//!   reference device.
//! * `c20_rng_empty_dst`: demonstrates a suspected defect (expected to FAIL; not part of the quick/thorough lists).
#![allow(dead_code, missing_docs, clippy::undocumented_unsafe_blocks, static_mut_refs)]
extern crate alloc;
use super::*;
use crate::transport::DeviceType;
use crate::verif_support::{log_at, log_len, Ev, KTransport};
#[path = "/verif/kani/cmd_dev.rs"]
mod dev;
use dev::*;

fn mk_rng() -> VirtIORng<DHal, KTransport> {
    dev_reset();
    let mut t = KTransport::new(DeviceType::EntropySource);
    t.device_features = 1 << 32;
    VirtIORng::<DHal, KTransport>::new(t).unwrap()
}

/// C20 K-bounded: `request_entropy(dst)`: exactly one chain with no device-readable part and `dst` as its only
/// device-writable part on queue 0; the value returned is the used length the device reported, for ALL 2^32 used
/// lengths; `dst` holds the device's bytes (ALL byte values).  Bounds: QUEUE_SIZE = 8 (fixed by the driver), fresh
/// queue, one request, 16-byte destination, direct descriptors.
#[kani::proof]
#[kani::unwind(40)]
fn c20_rng_entropy() {
    assert!(QUEUE_IDX == 0 && QUEUE_SIZE == 8, "C20: rng constants");
    let mut rng = mk_rng();
    let used: u32 = kani::any();
    let data: [u8; CAP] = kani::any();
    let mut dst = [0u8; 16];
    dev_used_push(1, QUEUE_SIZE, 0, used);
    dev_arm(&data);
    let n0 = log_len();
    let r = rng.request_entropy(&mut dst);
    assert!(sh_n() == 1, "C20: an entropy request is not one single-buffer chain");
    assert!(sh(0).dir == 1 && sh(0).len == 16 && sh(0).ptr == dst.as_mut_ptr(), "C20: the device-writable part is not the caller's buffer");
    assert!(dev_avail_idx(0, QUEUE_SIZE) == 1, "C20: not exactly one chain made available");
    assert!(unsh_n() == 1 && !unsh_bad(), "C20: buffer still shared after the request");
    assert!(r == Ok(used as usize), "C20: entropy length differs from the used length the device reported");
    let i: usize = kani::any();
    kani::assume(i < 16);
    assert!(dst[i] == data[i], "C20: destination does not hold the device's bytes");
    assert!(log_len() == n0 + 1 && log_at(n0) == Ev::Notify(0), "C20: notification");
}

/// Suspected defect RNG-1 (expected to FAIL): `request_entropy(&mut [])` hands an empty buffer to `VirtQueue::add`
/// ("The buffers must not be empty"), which passes it to `Hal::share`, whose `# Safety` clause requires a non-empty
/// memory range.  Not part of the quick/thorough lists.
#[kani::proof]
#[kani::unwind(40)]
fn c20_rng_empty_dst() {
    let mut rng = mk_rng();
    let mut dst = [0u8; 0];
    dev_used_push(1, QUEUE_SIZE, 0, 0);
    let _ = rng.request_entropy(&mut dst);
    assert!(!empty_share(), "C20: request_entropy(&mut []) passed an empty buffer to Hal::share (violates its # Safety clause)");
}
