//! C08 Kani harnesses on the REAL code: the default methods `Transport::begin_init` / `finish_init` and the
//! driver constructors, run against the recording transport/HAL of support.rs.  Child module of
//! `crate::transport` (appended to the scratch copy of src/transport/mod.rs), so `DeviceStatus(u32)` is visible.
//!
//! Naming: `c08_*` harnesses with only fixed-size loops and full-domain symbolic inputs are complete proofs
//! for the stated function (each doc comment says so); `k08_*` are bounded / concrete stand-ins.
//! They also validate the hand models of the bitflags types used by the Verus units init*.vrs
//! (DeviceStatus values, `Feature::all()`, and - through the WriteFeatures event of every constructor run -
//! each driver's SUPPORTED_FEATURES word and `from_bits_truncate` mask).
#![allow(dead_code, missing_docs, clippy::undocumented_unsafe_blocks)]
use super::*;
use crate::device::common::Feature;
use crate::verif_support::*;
use crate::Hal;
use core::ptr::NonNull;

const V1: u64 = 1 << 32;
const RING: u64 = (1 << 28) | (1 << 29) | (1 << 32) | (1 << 33);
/// union of the flags of `device::common::Feature` (model constant FEATURE_ALL of units/init_feature.vrs)
const COMMON_ALL: u64 = 0x7f_7900_0000;

/// C08 K∎ (loop-free: complete): the values of the DeviceStatus flags and of the unions the handshake writes are
/// the ones the Verus model (units/init_pre.vrs) uses.
#[kani::proof]
fn c08_status_consts() {
    assert!(DeviceStatus::empty().bits() == 0, "C08: DeviceStatus::empty() != 0");
    assert!(DeviceStatus::ACKNOWLEDGE.bits() == 1, "C08: ACKNOWLEDGE != 1");
    assert!(DeviceStatus::DRIVER.bits() == 2, "C08: DRIVER != 2");
    assert!(DeviceStatus::DRIVER_OK.bits() == 4, "C08: DRIVER_OK != 4");
    assert!(DeviceStatus::FEATURES_OK.bits() == 8, "C08: FEATURES_OK != 8");
    assert!(DeviceStatus::DEVICE_NEEDS_RESET.bits() == 64, "C08: DEVICE_NEEDS_RESET != 64");
    assert!(DeviceStatus::FAILED.bits() == 128, "C08: FAILED != 128");
    assert!((DeviceStatus::ACKNOWLEDGE | DeviceStatus::DRIVER).bits() == 3, "C08: ACKNOWLEDGE|DRIVER != 3");
    assert!((DeviceStatus::ACKNOWLEDGE | DeviceStatus::DRIVER | DeviceStatus::FEATURES_OK).bits() == 11, "C08: ..|FEATURES_OK != 11");
    assert!(
        (DeviceStatus::ACKNOWLEDGE | DeviceStatus::DRIVER | DeviceStatus::FEATURES_OK | DeviceStatus::DRIVER_OK).bits() == 15,
        "C08: ..|DRIVER_OK != 15"
    );
    // `a | b` is the bitwise or of the bits, for arbitrary operands
    let a: u32 = kani::any();
    let b: u32 = kani::any();
    assert!((DeviceStatus::from_bits_retain(a) | DeviceStatus::from_bits_retain(b)).bits() == a | b, "C08: BitOr is not bitwise or");
    assert!(crate::PAGE_SIZE == 0x1000, "C08: PAGE_SIZE != 4096");
}

/// C08 K∎ (fixed 12-entry flag table: complete over all 2^64 x 2^64 words): the operations of the bitflags type
/// `device::common::Feature` agree with the Verus model trait `Flags` (units/init_pre.vrs, init_feature.vrs).
#[kani::proof]
#[kani::unwind(14)]
fn c08_feature_consts_common() {
    assert!(Feature::all().bits() == COMMON_ALL, "C08: Feature::all() differs from the model constant");
    assert!(Feature::RING_INDIRECT_DESC.bits() == 1 << 28, "C08: RING_INDIRECT_DESC");
    assert!(Feature::RING_EVENT_IDX.bits() == 1 << 29, "C08: RING_EVENT_IDX");
    assert!(Feature::VERSION_1.bits() == 1 << 32, "C08: VERSION_1");
    assert!(Feature::ACCESS_PLATFORM.bits() == 1 << 33, "C08: ACCESS_PLATFORM");
    let a: u64 = kani::any();
    let b: u64 = kani::any();
    let fa = Feature::from_bits_retain(a);
    let fb = Feature::from_bits_retain(b);
    assert!(Feature::from_bits_truncate(a).bits() == a & COMMON_ALL, "C08: from_bits_truncate is not masking with all()");
    assert!((fa & fb).bits() == a & b, "C08: BitAnd is not bitwise and");
    assert!(fa.contains(fb) == (a & b == b), "C08: contains(o) is not (bits & o == o)");
    assert!(fa.union(fb).bits() == a | b, "C08: union is not bitwise or");
}

/// C08 K∎ (fixed 12-entry flag table: complete over every 64-bit offered word and every supported set that
/// contains VERSION_1): `begin_init` on the real code performs exactly reset(0), ACKNOWLEDGE|DRIVER, read features,
/// write (offered & all() & supported), ACKNOWLEDGE|DRIVER|FEATURES_OK, guest page size 4096 - and returns that word.
#[kani::proof]
#[kani::unwind(14)]
fn c08_begin_init() {
    log_reset();
    let mut t = KTransport::new(DeviceType::Block);
    let offered: u64 = kani::any();
    t.device_features = offered;
    t.status = kani::any();
    let sup: u64 = kani::any();
    // 6.1 "A driver MUST accept VIRTIO_F_VERSION_1 if it is offered": the caller's obligation (Verus precondition)
    kani::assume(sup & V1 != 0);
    let neg = t.begin_init(Feature::from_bits_retain(sup));
    let want = offered & COMMON_ALL & sup;
    assert!(neg.bits() == want, "C08: begin_init returns something else than offered & supported");
    assert!(offered & V1 == 0 || neg.bits() & V1 != 0, "C08: VERSION_1 offered but not accepted");
    assert!(neg.bits() & !offered == 0, "C08: accepted a feature that was not offered");
    assert!(neg.bits() & !sup == 0, "C08: accepted a feature the driver does not support");
    assert!(log_len() == 6, "C08: begin_init makes other than six transport calls");
    assert!(log_at(0) == Ev::SetStatus(0), "C08: first step is not the reset");
    assert!(log_at(1) == Ev::SetStatus(3), "C08: second step is not ACKNOWLEDGE|DRIVER");
    assert!(log_at(2) == Ev::ReadFeatures, "C08: third step is not the feature read");
    assert!(log_at(3) == Ev::WriteFeatures(want), "C08: fourth step does not write offered & supported");
    assert!(log_at(4) == Ev::SetStatus(11), "C08: fifth step is not ACKNOWLEDGE|DRIVER|FEATURES_OK");
    assert!(log_at(5) == Ev::GuestPageSize(4096), "C08: sixth step is not the guest page size 4096");
    assert!(t.status == 11, "C08: status after begin_init");
    core::mem::forget(t);
}

/// C08 K∎ (loop-free: complete): `finish_init` writes ACKNOWLEDGE|DRIVER|FEATURES_OK|DRIVER_OK, once, nothing else.
#[kani::proof]
#[kani::unwind(10)]
fn c08_finish_init() {
    log_reset();
    let mut t = KTransport::new(DeviceType::Block);
    t.status = kani::any();
    t.finish_init();
    assert!(log_len() == 1, "C08: finish_init makes other than one transport call");
    assert!(log_at(0) == Ev::SetStatus(15), "C08: finish_init does not write ..|DRIVER_OK");
    core::mem::forget(t);
}

// ---------------------------------------------------------------------------------------------
// constructors on the real code
// ---------------------------------------------------------------------------------------------

/// Oracle over the recorded call log of a successful construction: the six begin_init events with the expected
/// accepted word, then `nq` queue registrations, no feature/status/page-size/config-write traffic, exactly one
/// DRIVER_OK write, every queue registered before it and no notification before it.  (HAL events, queue queries,
/// configuration and generation reads may appear anywhere.)
fn check_log(offered: u64, supported: u64, nq: usize) {
    let n = log_len();
    assert!(n >= 7, "C08: log too short");
    let want = offered & supported;
    assert!(log_at(0) == Ev::SetStatus(0), "C08: first step is not the reset");
    assert!(log_at(1) == Ev::SetStatus(3), "C08: second step is not ACKNOWLEDGE|DRIVER");
    assert!(log_at(2) == Ev::ReadFeatures, "C08: third step is not the feature read");
    assert!(log_at(3) == Ev::WriteFeatures(want), "C08: the accepted features are not offered & SUPPORTED_FEATURES");
    assert!(offered & V1 == 0 || want & V1 != 0, "C08: VERSION_1 offered but not accepted");
    assert!(log_at(4) == Ev::SetStatus(11), "C08: fifth step is not ACKNOWLEDGE|DRIVER|FEATURES_OK");
    assert!(log_at(5) == Ev::GuestPageSize(4096), "C08: sixth step is not the guest page size 4096");
    let mut i = 6;
    let mut driver_ok = 0usize;
    let mut qsets = 0usize;
    let mut late_qset = false;
    let mut early_notify = false;
    let mut other = false;
    while i < n {
        match log_at(i) {
            Ev::SetStatus(s) => {
                if s == 15 { driver_ok += 1; } else { other = true; }
            }
            Ev::QueueSet(..) => {
                qsets += 1;
                if driver_ok != 0 { late_qset = true; }
            }
            Ev::Notify(_) => {
                if driver_ok == 0 { early_notify = true; }
            }
            Ev::ReadFeatures | Ev::WriteFeatures(_) | Ev::GuestPageSize(_) | Ev::CfgWrite(..) | Ev::QueueUnset(_) => other = true,
            _ => {}
        }
        i += 1;
    }
    assert!(!early_notify, "C08: available-buffer notification before DRIVER_OK");
    assert!(driver_ok == 1, "C08: DRIVER_OK not written exactly once");
    assert!(!late_qset, "C08: a queue registered after DRIVER_OK");
    assert!(qsets == nq, "C08: number of registered queues");
    assert!(!other, "C08: unexpected status/feature/config-write call during construction");
}

fn transport(t: DeviceType, offered: u64) -> KTransport {
    log_reset();
    let mut tr = KTransport::new(t);
    tr.device_features = offered;
    tr.legacy = kani::any();
    tr
}

/// C08 K∎ for this driver (every loop fully unwound, queue of 8): entropy driver, every 64-bit offered word, both layouts.
#[kani::proof]
#[kani::unwind(50)]
fn c08_new_rng() {
    let offered: u64 = kani::any();
    let tr = transport(DeviceType::EntropySource, offered);
    let r = crate::device::rng::VirtIORng::<KHal, KTransport>::new(tr);
    // non-vacuity: a well-behaved device (free queues, allocations succeed, 64-byte config space) is accepted
    assert!(r.is_ok(), "C08: construction refused on a well-behaved device");
    if let Ok(d) = r {
        check_log(offered, RING, 1);
        core::mem::forget(d);
    }
}

/// C08 K∎ for this driver (queue of 8): clock driver, every 64-bit offered word, both layouts.
#[kani::proof]
#[kani::unwind(50)]
fn c08_new_rtc() {
    let offered: u64 = kani::any();
    let tr = transport(DeviceType::Timer, offered);
    let r = crate::device::rtc::VirtIORtc::<KHal, KTransport>::new(tr);
    // non-vacuity: a well-behaved device (free queues, allocations succeed, 64-byte config space) is accepted
    assert!(r.is_ok(), "C08: construction refused on a well-behaved device");
    if let Ok(d) = r {
        check_log(offered, RING, 1);
        core::mem::forget(d);
    }
}

/// C08 K∎ for this driver (queue of 16): block driver, every 64-bit offered word, both layouts.
/// SUPPORTED = RO | FLUSH | ring features.
#[kani::proof]
#[kani::unwind(50)]
fn c08_new_blk() {
    let offered: u64 = kani::any();
    let tr = transport(DeviceType::Block, offered);
    let r = crate::device::blk::VirtIOBlk::<KHal, KTransport>::new(tr);
    // non-vacuity: a well-behaved device (free queues, allocations succeed, 64-byte config space) is accepted
    assert!(r.is_ok(), "C08: construction refused on a well-behaved device");
    if let Ok(d) = r {
        check_log(offered, RING | (1 << 5) | (1 << 9), 1);
        core::mem::forget(d);
    }
}

/// C08 K∎ for this driver (two queues of 2): GPU driver, every 64-bit offered word, both layouts.  SUPPORTED = EDID | ring features.
#[kani::proof]
#[kani::unwind(50)]
fn c08_new_gpu() {
    let offered: u64 = kani::any();
    let tr = transport(DeviceType::GPU, offered);
    let r = crate::device::gpu::VirtIOGpu::<KHal, KTransport>::new(tr);
    // non-vacuity: a well-behaved device (free queues, allocations succeed, 64-byte config space) is accepted
    assert!(r.is_ok(), "C08: construction refused on a well-behaved device");
    if let Ok(d) = r {
        check_log(offered, RING | (1 << 1), 2);
        core::mem::forget(d);
    }
}

/// C08 K∎ for this driver (two queues of 2, one receive buffer posted after DRIVER_OK): console driver, every 64-bit
/// offered word, both layouts.  SUPPORTED = SIZE | EMERG_WRITE | ring features.
#[kani::proof]
#[kani::unwind(50)]
fn c08_new_console() {
    let offered: u64 = kani::any();
    let tr = transport(DeviceType::Console, offered);
    let r = crate::device::console::VirtIOConsole::<KHal, KTransport>::new(tr);
    // non-vacuity: a well-behaved device (free queues, allocations succeed, 64-byte config space) is accepted
    assert!(r.is_ok(), "C08: construction refused on a well-behaved device");
    if let Ok(d) = r {
        check_log(offered, RING | (1 << 0) | (1 << 2), 2);
        core::mem::forget(d);
    }
}

/// C08 K∎ for this instantiation (two queues of 4): raw network driver, every 64-bit offered word, both layouts.
/// SUPPORTED = MAC | STATUS | ring features (MRG_RXBUF is not supported).
#[kani::proof]
#[kani::unwind(50)]
fn c08_new_net_raw() {
    let offered: u64 = kani::any();
    let tr = transport(DeviceType::Network, offered);
    let r = crate::device::net::VirtIONetRaw::<KHal, KTransport, 4>::new(tr);
    // non-vacuity: a well-behaved device (free queues, allocations succeed, 64-byte config space) is accepted
    assert!(r.is_ok(), "C08: construction refused on a well-behaved device");
    if let Ok(d) = r {
        check_log(offered, RING | (1 << 5) | (1 << 16), 2);
        core::mem::forget(d);
    }
}

/// k08 (bounded stand-in: one-byte mount tag 'a'): 9P driver, every 64-bit offered word, both layouts.
#[kani::proof]
#[kani::unwind(50)]
fn k08_new_9p() {
    let offered: u64 = kani::any();
    let mut tr = transport(DeviceType::_9P, offered);
    tr.config[0] = 1;
    tr.config[1] = 0;
    tr.config[2] = b'a';
    let r = crate::device::virtio_9p::VirtIO9p::<KHal, KTransport>::new(tr);
    // non-vacuity: a well-behaved device (free queues, allocations succeed, 64-byte config space) is accepted
    assert!(r.is_ok(), "C08: construction refused on a well-behaved device");
    if let Ok(d) = r {
        check_log(offered, RING, 1);
        core::mem::forget(d);
    }
}

/// k08 (bounded stand-in: RX_BUFFER_SIZE 64, three queues of 8, eight receive buffers): socket driver, every 64-bit
/// offered word, modern layout.
#[kani::proof]
#[kani::unwind(50)]
fn k08_new_vsock() {
    let offered: u64 = kani::any();
    let mut tr = transport(DeviceType::Socket, offered);
    tr.legacy = false;
    let r = crate::device::socket::VirtIOSocket::<KHal, KTransport, 64>::new(tr);
    // non-vacuity: a well-behaved device (free queues, allocations succeed, 64-byte config space) is accepted
    assert!(r.is_ok(), "C08: construction refused on a well-behaved device");
    if let Ok(d) = r {
        check_log(offered, RING, 3);
        core::mem::forget(d);
    }
}

/// A HAL that records nothing (the 32-entry drivers would overflow the shared event log with their share() calls).
pub struct QuietHal;
unsafe impl Hal for QuietHal {
    fn dma_alloc(pages: usize, _d: crate::BufferDirection, _ap: bool) -> (crate::PhysAddr, NonNull<u8>) {
        let layout = alloc::alloc::Layout::from_size_align(pages * crate::PAGE_SIZE, crate::PAGE_SIZE).unwrap();
        let p = unsafe { alloc::alloc::alloc_zeroed(layout) };
        (p as u64, NonNull::new(p).unwrap())
    }
    unsafe fn dma_dealloc(_paddr: crate::PhysAddr, vaddr: NonNull<u8>, pages: usize, _ap: bool) -> i32 {
        let layout = alloc::alloc::Layout::from_size_align(pages * crate::PAGE_SIZE, crate::PAGE_SIZE).unwrap();
        unsafe { alloc::alloc::dealloc(vaddr.as_ptr(), layout) };
        0
    }
    unsafe fn mmio_phys_to_virt(paddr: crate::PhysAddr, _size: usize) -> NonNull<u8> {
        NonNull::new(paddr as *mut u8).unwrap()
    }
    unsafe fn share(buffer: NonNull<[u8]>, _d: crate::BufferDirection, _ap: bool) -> crate::PhysAddr {
        buffer.as_ptr() as *mut u8 as u64
    }
    unsafe fn unshare(_paddr: crate::PhysAddr, _buffer: NonNull<[u8]>, _d: crate::BufferDirection, _ap: bool) {}
}

/// k08 (concrete scenario: offered = VERSION_1 (no event index, so that `should_notify` reads the zeroed used.flags and
/// answers true), modern layout, two queues of 32, 32 buffers posted).  FAILS on the unchanged tree - suspected defect
/// D5: `VirtIOInput::new` calls `transport.notify(QUEUE_EVENT)` before `transport.finish_init()`.
/// NOT in any tier list: under CBMC the formula of two 32-entry queues exceeds the 30 GB address-space cap of kanirun
/// ("Solver ran out of memory during propositional reduction", after 8 min).  The harness body is deterministic, so it is
/// replayed natively instead (`cargo kani playback` with the single value `legacy = false`): it panics with
/// "C08: available-buffer notification before DRIVER_OK" on the unchanged tree and passes with the two statements swapped.
#[kani::proof]
#[kani::unwind(50)]
fn k08_new_input() {
    let offered: u64 = V1;
    let mut tr = transport(DeviceType::Input, offered);
    tr.legacy = false;
    let r = crate::device::input::VirtIOInput::<QuietHal, KTransport>::new(tr);
    // non-vacuity: a well-behaved device (free queues, allocations succeed, 64-byte config space) is accepted
    assert!(r.is_ok(), "C08: construction refused on a well-behaved device");
    if let Ok(d) = r {
        check_log(offered, RING, 2);
        core::mem::forget(d);
    }
}

/// k08 (concrete): a network device that offers neither MAC nor STATUS and whose configuration space ends after the
/// (always present) mac field - legal per VirtIO 1.x 5.1.4 ("status only exists if VIRTIO_NET_F_STATUS is set").
/// EXPECTED TO FAIL on the unchanged tree - suspected defect D11: the constructor reads `status` unconditionally and
/// gives up with ConfigSpaceTooSmall.
#[kani::proof]
#[kani::unwind(50)]
fn k08_net_status_gate() {
    let offered: u64 = V1;
    let mut tr = transport(DeviceType::Network, offered);
    tr.config_len = 6;
    let r = crate::device::net::VirtIONetRaw::<KHal, KTransport, 4>::new(tr);
    assert!(r.is_ok(), "C08: construction fails on a configuration field (status) whose feature was not negotiated");
    if let Ok(d) = r { core::mem::forget(d); }
}
