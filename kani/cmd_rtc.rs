//! Kani harnesses over the real RTC driver types (C20).  Appended to the scratch copy of src/device/rtc.rs as a child
//! module.  All harnesses here have full-domain symbolic inputs and no input-dependent loop (only fixed 16-iteration
//! comparisons): COMPLETE proofs.  They validate the hand-written memory images (`Wire::wire` / `Wire::decodes`), the
//! `derive(Default)` models and the constants of units/cmd_rtc.vrs against the real zerocopy types.
#![allow(dead_code, missing_docs, clippy::undocumented_unsafe_blocks, static_mut_refs)]
extern crate alloc;
use super::*;
use zerocopy::FromZeros;

fn put16(b: &mut [u8], off: usize, v: u16) { let x = v.to_le_bytes(); b[off] = x[0]; b[off + 1] = x[1]; }
fn eq_n(a: &[u8], b: &[u8], n: usize) -> bool {
    if a.len() != n || b.len() < n { return false; }
    let mut i = 0;
    let mut ok = true;
    while i < n {
        if a[i] != b[i] { ok = false; }
        i += 1;
    }
    ok
}

/// C20 K-complete: request codes, status codes, clock types, smearing variants, the alarm flag; derive(Default) of the
/// request structures is all-zero.
#[kani::proof]
fn c20_rtc_consts() {
    assert!(QUEUE_REQUEST == 0, "C20: request queue index");
    assert!(VIRTIO_RTC_REQ_CFG == 0x1000 && VIRTIO_RTC_REQ_CLOCK_CAP == 0x1001 && VIRTIO_RTC_REQ_READ == 0x0001, "C20: request codes");
    assert!(VIRTIO_RTC_S_OK == 0 && VIRTIO_RTC_S_EOPNOTSUPP == 2 && VIRTIO_RTC_S_ENODEV == 3 && VIRTIO_RTC_S_EINVAL == 4 && VIRTIO_RTC_S_EIO == 5, "C20: status codes");
    assert!(VIRTIO_RTC_CLOCK_UTC == 0 && VIRTIO_RTC_CLOCK_TAI == 1 && VIRTIO_RTC_CLOCK_MONOTONIC == 2
        && VIRTIO_RTC_CLOCK_UTC_SMEARED == 3 && VIRTIO_RTC_CLOCK_UTC_MAYBE_SMEARED == 4, "C20: clock types");
    assert!(VIRTIO_RTC_SMEAR_UNSPECIFIED == 0 && VIRTIO_RTC_SMEAR_NOON_LINEAR == 1 && VIRTIO_RTC_SMEAR_UTC_SLS == 2, "C20: smearing variants");
    assert!(VIRTIO_RTC_FLAG_ALARM_CAP == 1, "C20: alarm capability flag");
    let h = VirtioRtcReqHead::default();
    assert!(h.msg_type == 0 && h.reserved == [0u8; 6], "C20: VirtioRtcReqHead::default()");
    let c = VirtioRtcReqClockCap::default();
    assert!(c.head.msg_type == 0 && c.head.reserved == [0u8; 6] && c.clock_id == 0 && c.reserved == [0u8; 6], "C20: VirtioRtcReqClockCap::default()");
    let r = VirtioRtcReqRead::default();
    assert!(r.head.msg_type == 0 && r.head.reserved == [0u8; 6] && r.clock_id == 0 && r.reserved == [0u8; 6], "C20: VirtioRtcReqRead::default()");
    assert!(core::mem::size_of::<VirtioRtcReqHead>() == 8 && core::mem::size_of::<VirtioRtcRespHead>() == 8
        && core::mem::size_of::<VirtioRtcRespCfg>() == 16 && core::mem::size_of::<VirtioRtcReqClockCap>() == 16
        && core::mem::size_of::<VirtioRtcRespClockCap>() == 16 && core::mem::size_of::<VirtioRtcReqRead>() == 16
        && core::mem::size_of::<VirtioRtcRespRead>() == 16, "C20: structure sizes");
}

/// C20 K-complete: `as_bytes()` of the three request structures for ALL field values: le16 msg_type @0, reserved @2,
/// le16 clock_id @8, reserved @10.
#[kani::proof]
#[kani::unwind(18)]
fn c20_rtc_layout_req() {
    let msg_type: u16 = kani::any();
    let res6: [u8; 6] = kani::any();
    let clock_id: u16 = kani::any();
    let res6b: [u8; 6] = kani::any();
    let head = VirtioRtcReqHead { msg_type, reserved: res6 };
    let mut b = [0u8; 16];
    put16(&mut b, 0, msg_type);
    b[2] = res6[0]; b[3] = res6[1]; b[4] = res6[2]; b[5] = res6[3]; b[6] = res6[4]; b[7] = res6[5];
    assert!(eq_n(head.as_bytes(), &b, 8), "C20: request header image");
    put16(&mut b, 8, clock_id);
    b[10] = res6b[0]; b[11] = res6b[1]; b[12] = res6b[2]; b[13] = res6b[3]; b[14] = res6b[4]; b[15] = res6b[5];
    let c = VirtioRtcReqClockCap { head, clock_id, reserved: res6b };
    assert!(eq_n(c.as_bytes(), &b, 16), "C20: CLOCK_CAP request image");
    let r = VirtioRtcReqRead { head, clock_id, reserved: res6b };
    assert!(eq_n(r.as_bytes(), &b, 16), "C20: READ request image");
}

/// C20 K-complete: what the device writes through `as_mut_bytes()` of a zeroed response is the value the driver
/// reads, for ALL 16-byte responses: status @0; num_clocks le16 @8; type @8, leap_second_smearing @9, flags @10;
/// clock_reading le64 @8.  `as_bytes()` afterwards is the same image; `read_from_prefix` of the head gives the status.
#[kani::proof]
#[kani::unwind(18)]
fn c20_rtc_layout_resp() {
    let raw: [u8; 16] = kani::any();
    let mut cfg = VirtioRtcRespCfg::new_zeroed();
    assert!(eq_n(cfg.as_bytes(), &[0u8; 16], 16), "C20: new_zeroed image");
    cfg.as_mut_bytes().copy_from_slice(&raw);
    assert!(cfg.head.status == raw[0] && cfg.num_clocks == u16::from_le_bytes([raw[8], raw[9]]), "C20: CFG response decoding");
    assert!(eq_n(cfg.as_bytes(), &raw, 16), "C20: CFG response image");
    let head = VirtioRtcRespHead::read_from_prefix(cfg.as_bytes()).unwrap().0;
    assert!(head.status == raw[0], "C20: response head decoding");
    let mut cap = VirtioRtcRespClockCap::new_zeroed();
    cap.as_mut_bytes().copy_from_slice(&raw);
    assert!(cap.head.status == raw[0] && cap.type_ == raw[8] && cap.leap_second_smearing == raw[9] && cap.flags == raw[10], "C20: CLOCK_CAP response decoding");
    assert!(eq_n(cap.as_bytes(), &raw, 16), "C20: CLOCK_CAP response image");
    let mut rd = VirtioRtcRespRead::new_zeroed();
    rd.as_mut_bytes().copy_from_slice(&raw);
    assert!(rd.head.status == raw[0]
        && rd.clock_reading == u64::from_le_bytes([raw[8], raw[9], raw[10], raw[11], raw[12], raw[13], raw[14], raw[15]]), "C20: READ response decoding");
    assert!(eq_n(rd.as_bytes(), &raw, 16), "C20: READ response image");
}
