//! Shared support for the Kani harnesses: a recording `Hal` and `Transport`.
//! Appended to the scratch copy of src/lib.rs as
//! `#[cfg(kani)] #[path = "/verif/kani/support.rs"] pub(crate) mod verif_support;`
#![allow(dead_code, missing_docs, clippy::undocumented_unsafe_blocks)]
extern crate alloc;
use crate::transport::{DeviceStatus, DeviceType, InterruptStatus, Transport};
use crate::{BufferDirection, Hal, PhysAddr, Result, PAGE_SIZE};
use core::ptr::NonNull;
use zerocopy::{FromBytes, Immutable, IntoBytes};

pub const MAX_EV: usize = 48;

/// Events recorded by the model transport / HAL (one global log; Kani is single-threaded).
#[derive(Clone, Copy, PartialEq, Eq, Debug)]
pub enum Ev {
    None,
    SetStatus(u32),
    ReadFeatures,
    WriteFeatures(u64),
    MaxSize(u16),
    QueueUsed(u16),
    QueueSet(u16, u32, u64, u64, u64),
    QueueUnset(u16),
    Notify(u16),
    GuestPageSize(u32),
    Alloc(u64, usize, usize, u8),
    Dealloc(u64, usize, usize),
    Share(u64, usize, usize, u8),
    Unshare(u64, usize, usize, u8),
    AckInterrupt,
    CfgRead(usize, usize),
    CfgWrite(usize, usize),
    GenRead,
}

pub struct Log {
    pub ev: [Ev; MAX_EV],
    pub n: usize,
    /// number of dma_alloc calls so far / index of the allocation that must fail (0 = none)
    pub allocs: usize,
    pub fail_alloc_at: usize,
    pub live_allocs: isize,
}

pub static mut LOG: Log = Log { ev: [Ev::None; MAX_EV], n: 0, allocs: 0, fail_alloc_at: 0, live_allocs: 0 };

pub fn log_reset() {
    unsafe {
        LOG.n = 0;
        LOG.allocs = 0;
        LOG.fail_alloc_at = 0;
        LOG.live_allocs = 0;
    }
}
pub fn log_push(e: Ev) {
    unsafe {
        assert!(LOG.n < MAX_EV, "verif: event log overflow");
        LOG.ev[LOG.n] = e;
        LOG.n += 1;
    }
}
pub fn log_len() -> usize {
    unsafe { LOG.n }
}
pub fn log_at(i: usize) -> Ev {
    unsafe { LOG.ev[i] }
}

fn dir_code(d: BufferDirection) -> u8 {
    match d {
        BufferDirection::DriverToDevice => 0,
        BufferDirection::DeviceToDriver => 1,
        BufferDirection::Both => 2,
    }
}

/// A HAL whose device addresses differ from driver pointers (paddr = vaddr + BOUNCE), which
/// records every call.
pub struct KHal;
pub const BOUNCE: u64 = 0x1_0000_0000;

unsafe impl Hal for KHal {
    fn dma_alloc(pages: usize, direction: BufferDirection, _access_platform: bool) -> (PhysAddr, NonNull<u8>) {
        unsafe {
            LOG.allocs += 1;
            if LOG.fail_alloc_at != 0 && LOG.allocs == LOG.fail_alloc_at {
                return (0, NonNull::dangling());
            }
        }
        assert!(pages > 0);
        let layout = alloc::alloc::Layout::from_size_align(pages * PAGE_SIZE, PAGE_SIZE).unwrap();
        let p = unsafe { alloc::alloc::alloc_zeroed(layout) };
        let v = NonNull::new(p).unwrap();
        let paddr = p as u64 + BOUNCE;
        unsafe { LOG.live_allocs += 1; }
        log_push(Ev::Alloc(paddr, p as usize, pages, dir_code(direction)));
        (paddr, v)
    }
    unsafe fn dma_dealloc(paddr: PhysAddr, vaddr: NonNull<u8>, pages: usize, _access_platform: bool) -> i32 {
        log_push(Ev::Dealloc(paddr, vaddr.as_ptr() as usize, pages));
        unsafe { LOG.live_allocs -= 1; }
        let layout = alloc::alloc::Layout::from_size_align(pages * PAGE_SIZE, PAGE_SIZE).unwrap();
        unsafe { alloc::alloc::dealloc(vaddr.as_ptr(), layout) };
        0
    }
    unsafe fn mmio_phys_to_virt(paddr: PhysAddr, _size: usize) -> NonNull<u8> {
        NonNull::new(paddr as *mut u8).unwrap()
    }
    unsafe fn share(buffer: NonNull<[u8]>, direction: BufferDirection, _access_platform: bool) -> PhysAddr {
        let v = buffer.as_ptr() as *mut u8 as usize;
        let paddr = v as u64 + BOUNCE;
        log_push(Ev::Share(paddr, v, buffer.len(), dir_code(direction)));
        paddr
    }
    unsafe fn unshare(paddr: PhysAddr, buffer: NonNull<[u8]>, direction: BufferDirection, _access_platform: bool) {
        let v = buffer.as_ptr() as *mut u8 as usize;
        log_push(Ev::Unshare(paddr, v, buffer.len(), dir_code(direction)));
    }
}

/// A model transport that records every call.  Answers are fields set by the harness.
pub struct KTransport {
    pub device_type: DeviceType,
    pub device_features: u64,
    pub max_queue_size: u32,
    pub queue_used: bool,
    pub legacy: bool,
    pub status: u32,
    pub config: [u8; 64],
    pub config_len: usize,
    pub generation: u32,
}

impl KTransport {
    pub fn new(device_type: DeviceType) -> Self {
        KTransport {
            device_type,
            device_features: 0,
            max_queue_size: 256,
            queue_used: false,
            legacy: false,
            status: 0,
            config: [0; 64],
            config_len: 64,
            generation: 0,
        }
    }
}

impl Transport for KTransport {
    fn device_type(&self) -> DeviceType { self.device_type }
    fn read_device_features(&mut self) -> u64 { log_push(Ev::ReadFeatures); self.device_features }
    fn write_driver_features(&mut self, f: u64) { log_push(Ev::WriteFeatures(f)); }
    fn max_queue_size(&mut self, q: u16) -> u32 { log_push(Ev::MaxSize(q)); self.max_queue_size }
    fn notify(&mut self, q: u16) { log_push(Ev::Notify(q)); }
    fn get_status(&self) -> DeviceStatus { DeviceStatus::from_bits_retain(self.status) }
    fn set_status(&mut self, s: DeviceStatus) { self.status = s.bits(); log_push(Ev::SetStatus(s.bits())); }
    fn set_guest_page_size(&mut self, s: u32) { log_push(Ev::GuestPageSize(s)); }
    fn requires_legacy_layout(&self) -> bool { self.legacy }
    fn queue_set(&mut self, q: u16, size: u32, d: PhysAddr, a: PhysAddr, u: PhysAddr) {
        log_push(Ev::QueueSet(q, size, d, a, u));
    }
    fn queue_unset(&mut self, q: u16) { log_push(Ev::QueueUnset(q)); }
    fn queue_used(&mut self, q: u16) -> bool { log_push(Ev::QueueUsed(q)); self.queue_used }
    fn ack_interrupt(&mut self) -> InterruptStatus { log_push(Ev::AckInterrupt); InterruptStatus::empty() }
    fn read_config_generation(&self) -> u32 { log_push(Ev::GenRead); self.generation }
    fn read_config_space<T: FromBytes + IntoBytes>(&self, offset: usize) -> Result<T> {
        log_push(Ev::CfgRead(offset, core::mem::size_of::<T>()));
        let end = offset.checked_add(core::mem::size_of::<T>()).ok_or(crate::Error::ConfigSpaceTooSmall)?;
        if end > self.config_len { return Err(crate::Error::ConfigSpaceTooSmall); }
        Ok(T::read_from_bytes(&self.config[offset..end]).unwrap())
    }
    fn write_config_space<T: IntoBytes + Immutable>(&mut self, offset: usize, value: T) -> Result<()> {
        log_push(Ev::CfgWrite(offset, core::mem::size_of::<T>()));
        let end = offset.checked_add(core::mem::size_of::<T>()).ok_or(crate::Error::ConfigSpaceTooSmall)?;
        if end > self.config_len { return Err(crate::Error::ConfigSpaceTooSmall); }
        self.config[offset..end].copy_from_slice(value.as_bytes());
        Ok(())
    }
}
