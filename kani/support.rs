//! Shared support for the Kani harnesses: a recording `Hal` and `Transport`.
//! Appended to the scratch copy of src/lib.rs as
//! `#[cfg(kani)] #[path = "/verif/kani/support.rs"] pub(crate) mod verif_support;`
#![allow(dead_code, missing_docs, clippy::undocumented_unsafe_blocks)]
extern crate alloc;
use crate::transport::{DeviceStatus, DeviceType, InterruptStatus, Transport};
use crate::{BufferDirection, Hal, PhysAddr, Result, PAGE_SIZE};
use core::ptr::NonNull;
use zerocopy::{FromBytes, Immutable, IntoBytes};

pub const MAX_EV: usize = 48;

/// Events recorded by the model transport / HAL (one global log; Kani is single-threaded).
#[derive(Clone, Copy, PartialEq, Eq, Debug)]
pub enum Ev {
    None,
    SetStatus(u32),
    ReadFeatures,
    WriteFeatures(u64),
    MaxSize(u16),
    QueueUsed(u16),
    QueueSet(u16, u32, u64, u64, u64),
    QueueUnset(u16),
    Notify(u16),
    GuestPageSize(u32),
    Alloc(u64, usize, usize, u8),
    Dealloc(u64, usize, usize),
    Share(u64, usize, usize, u8),
    Unshare(u64, usize, usize, u8),
    AckInterrupt,
    CfgRead(usize, usize),
    CfgWrite(usize, usize),
    GenRead,
}

pub const MAX_Q: usize = 4;
pub const MAX_ALLOC: usize = 8;

/// State the C09 oracle needs, maintained incrementally (no log scans: those are expensive for CBMC).
pub struct Live {
    pub driver_ok: bool,
    /// queue registered and neither unset nor reset since
    pub q_enabled: [bool; MAX_Q],
    /// device addresses of the descriptor and device areas registered for the queue
    pub q_desc: [u64; MAX_Q],
    pub q_dev: [u64; MAX_Q],
    /// allocation ledger
    pub a_paddr: [u64; MAX_ALLOC],
    pub a_vaddr: [usize; MAX_ALLOC],
    pub a_pages: [usize; MAX_ALLOC],
    pub a_live: [bool; MAX_ALLOC],
    pub a_n: usize,
    pub notify_before_driver_ok: bool,
}
pub static mut LIVE: Live = Live {
    driver_ok: false, q_enabled: [false; MAX_Q], q_desc: [0; MAX_Q], q_dev: [0; MAX_Q],
    a_paddr: [0; MAX_ALLOC], a_vaddr: [0; MAX_ALLOC], a_pages: [0; MAX_ALLOC], a_live: [false; MAX_ALLOC], a_n: 0,
    notify_before_driver_ok: false,
};
fn live_reset_device() {
    unsafe {
        LIVE.driver_ok = false;
        let mut q = 0;
        while q < MAX_Q { LIVE.q_enabled[q] = false; q += 1; }
    }
}

pub struct Log {
    pub ev: [Ev; MAX_EV],
    pub n: usize,
    /// number of dma_alloc calls so far / index of the allocation that must fail (0 = none)
    pub allocs: usize,
    pub fail_alloc_at: usize,
    pub live_allocs: isize,
}

pub static mut LOG: Log = Log { ev: [Ev::None; MAX_EV], n: 0, allocs: 0, fail_alloc_at: 0, live_allocs: 0 };

pub fn log_reset() {
    unsafe {
        LOG.n = 0;
        LOG.allocs = 0;
        LOG.fail_alloc_at = 0;
        LOG.live_allocs = 0;
        LIVE.a_n = 0;
        LIVE.notify_before_driver_ok = false;
        let mut i = 0;
        while i < MAX_ALLOC { LIVE.a_live[i] = false; i += 1; }
    }
    live_reset_device();
}
pub fn log_push(e: Ev) {
    unsafe {
        assert!(LOG.n < MAX_EV, "verif: event log overflow");
        LOG.ev[LOG.n] = e;
        LOG.n += 1;
    }
}
pub fn log_len() -> usize {
    unsafe { LOG.n }
}
pub fn log_at(i: usize) -> Ev {
    unsafe { LOG.ev[i] }
}

fn dir_code(d: BufferDirection) -> u8 {
    match d {
        BufferDirection::DriverToDevice => 0,
        BufferDirection::DeviceToDriver => 1,
        BufferDirection::Both => 2,
    }
}

/// A HAL whose device addresses differ from driver pointers (paddr = vaddr + BOUNCE), which
/// records every call.
pub struct KHal;
pub const BOUNCE: u64 = 0x1_0000_0000;

unsafe impl Hal for KHal {
    fn dma_alloc(pages: usize, direction: BufferDirection, _access_platform: bool) -> (PhysAddr, NonNull<u8>) {
        unsafe {
            LOG.allocs += 1;
            if LOG.fail_alloc_at != 0 && LOG.allocs == LOG.fail_alloc_at {
                return (0, NonNull::dangling());
            }
        }
        assert!(pages > 0);
        let layout = alloc::alloc::Layout::from_size_align(pages * PAGE_SIZE, PAGE_SIZE).unwrap();
        let p = unsafe { alloc::alloc::alloc_zeroed(layout) };
        let v = NonNull::new(p).unwrap();
        let paddr = p as u64 + BOUNCE;
        unsafe {
            LOG.live_allocs += 1;
            assert!(LIVE.a_n < MAX_ALLOC, "verif: allocation ledger overflow");
            let k = LIVE.a_n;
            LIVE.a_paddr[k] = paddr; LIVE.a_vaddr[k] = p as usize; LIVE.a_pages[k] = pages; LIVE.a_live[k] = true;
            LIVE.a_n += 1;
        }
        log_push(Ev::Alloc(paddr, p as usize, pages, dir_code(direction)));
        (paddr, v)
    }
    unsafe fn dma_dealloc(paddr: PhysAddr, vaddr: NonNull<u8>, pages: usize, _access_platform: bool) -> i32 {
        log_push(Ev::Dealloc(paddr, vaddr.as_ptr() as usize, pages));
        unsafe {
            LOG.live_allocs -= 1;
            // C06/C09: returned exactly once, with the address, pointer and page count it was allocated with
            let mut found = false;
            let mut k = 0;
            while k < MAX_ALLOC {
                if k < LIVE.a_n && LIVE.a_live[k] && LIVE.a_paddr[k] == paddr {
                    assert!(LIVE.a_vaddr[k] == vaddr.as_ptr() as usize && LIVE.a_pages[k] == pages,
                            "C09: dma_dealloc with a pointer/page count different from the allocation's");
                    LIVE.a_live[k] = false;
                    found = true;
                }
                k += 1;
            }
            assert!(found, "C09: dma_dealloc of a region that is not a live allocation (double free or wrong address)");
            // C09: no queue memory released while the device is live on that queue
            let mut q = 0;
            while q < MAX_Q {
                if LIVE.q_enabled[q] && (LIVE.q_desc[q] == paddr || LIVE.q_dev[q] == paddr) {
                    assert!(!LIVE.driver_ok, "C09: queue memory released while the device is live on the queue (after DRIVER_OK, queue not disabled, device not reset)");
                }
                q += 1;
            }
        }
        let layout = alloc::alloc::Layout::from_size_align(pages * PAGE_SIZE, PAGE_SIZE).unwrap();
        unsafe { alloc::alloc::dealloc(vaddr.as_ptr(), layout) };
        0
    }
    unsafe fn mmio_phys_to_virt(paddr: PhysAddr, _size: usize) -> NonNull<u8> {
        NonNull::new(paddr as *mut u8).unwrap()
    }
    unsafe fn share(buffer: NonNull<[u8]>, direction: BufferDirection, _access_platform: bool) -> PhysAddr {
        let v = buffer.as_ptr() as *mut u8 as usize;
        let paddr = v as u64 + BOUNCE;
        log_push(Ev::Share(paddr, v, buffer.len(), dir_code(direction)));
        paddr
    }
    unsafe fn unshare(paddr: PhysAddr, buffer: NonNull<[u8]>, direction: BufferDirection, _access_platform: bool) {
        let v = buffer.as_ptr() as *mut u8 as usize;
        log_push(Ev::Unshare(paddr, v, buffer.len(), dir_code(direction)));
    }
}

/// A model transport that records every call.  Answers are fields set by the harness.
pub struct KTransport {
    pub device_type: DeviceType,
    pub device_features: u64,
    pub max_queue_size: u32,
    pub queue_used: bool,
    pub legacy: bool,
    pub status: u32,
    pub config: [u8; 64],
    pub config_len: usize,
    pub generation: u32,
    /// like PciTransport, `queue_unset` may be unable to disable a queue: then only a reset quiesces the device
    pub unset_noop: bool,
}

impl KTransport {
    pub fn new(device_type: DeviceType) -> Self {
        KTransport {
            device_type,
            device_features: 0,
            max_queue_size: 256,
            queue_used: false,
            legacy: false,
            status: 0,
            config: [0; 64],
            config_len: 64,
            generation: 0,
            unset_noop: false,
        }
    }
}

impl Transport for KTransport {
    fn device_type(&self) -> DeviceType { self.device_type }
    fn read_device_features(&mut self) -> u64 { log_push(Ev::ReadFeatures); self.device_features }
    fn write_driver_features(&mut self, f: u64) { log_push(Ev::WriteFeatures(f)); }
    fn max_queue_size(&mut self, q: u16) -> u32 { log_push(Ev::MaxSize(q)); self.max_queue_size }
    fn notify(&mut self, q: u16) { unsafe { if !LIVE.driver_ok { LIVE.notify_before_driver_ok = true; } } log_push(Ev::Notify(q)); }
    fn get_status(&self) -> DeviceStatus { DeviceStatus::from_bits_retain(self.status) }
    fn set_status(&mut self, s: DeviceStatus) {
        self.status = s.bits();
        if s.bits() == 0 { live_reset_device(); }
        unsafe { LIVE.driver_ok = s.bits() & 4 != 0; }
        log_push(Ev::SetStatus(s.bits()));
    }
    fn set_guest_page_size(&mut self, s: u32) { log_push(Ev::GuestPageSize(s)); }
    fn requires_legacy_layout(&self) -> bool { self.legacy }
    fn queue_set(&mut self, q: u16, size: u32, d: PhysAddr, a: PhysAddr, u: PhysAddr) {
        unsafe {
            if (q as usize) < MAX_Q { LIVE.q_enabled[q as usize] = true; LIVE.q_desc[q as usize] = d; LIVE.q_dev[q as usize] = u; }
        }
        log_push(Ev::QueueSet(q, size, d, a, u));
    }
    fn queue_unset(&mut self, q: u16) {
        unsafe { if (q as usize) < MAX_Q && !self.unset_noop { LIVE.q_enabled[q as usize] = false; } }
        log_push(Ev::QueueUnset(q));
    }
    fn queue_used(&mut self, q: u16) -> bool { log_push(Ev::QueueUsed(q)); self.queue_used }
    fn ack_interrupt(&mut self) -> InterruptStatus { log_push(Ev::AckInterrupt); InterruptStatus::empty() }
    fn read_config_generation(&self) -> u32 { log_push(Ev::GenRead); self.generation }
    fn read_config_space<T: FromBytes + IntoBytes>(&self, offset: usize) -> Result<T> {
        log_push(Ev::CfgRead(offset, core::mem::size_of::<T>()));
        let end = offset.checked_add(core::mem::size_of::<T>()).ok_or(crate::Error::ConfigSpaceTooSmall)?;
        if end > self.config_len { return Err(crate::Error::ConfigSpaceTooSmall); }
        Ok(T::read_from_bytes(&self.config[offset..end]).unwrap())
    }
    fn write_config_space<T: IntoBytes + Immutable>(&mut self, offset: usize, value: T) -> Result<()> {
        log_push(Ev::CfgWrite(offset, core::mem::size_of::<T>()));
        let end = offset.checked_add(core::mem::size_of::<T>()).ok_or(crate::Error::ConfigSpaceTooSmall)?;
        if end > self.config_len { return Err(crate::Error::ConfigSpaceTooSmall); }
        self.config[offset..end].copy_from_slice(value.as_bytes());
        Ok(())
    }
}

/// Like the real MMIO/PCI transports, the model transport resets the device when dropped.
impl Drop for KTransport {
    fn drop(&mut self) {
        live_reset_device();
        log_push(Ev::SetStatus(0));
    }
}

/// all DMA regions returned
pub fn ledger_empty() -> bool {
    let mut k = 0;
    let mut ok = true;
    while k < MAX_ALLOC {
        unsafe { if k < LIVE.a_n && LIVE.a_live[k] { ok = false; } }
        k += 1;
    }
    ok
}
