//! Kani harnesses over the real `OwningQueue` (child module of `crate::queue::owning`, so the private
//! fields `queue` / `buffers`, the private `pop` / `add_buffer_to_queue` and the private fields of
//! `VirtQueue` are visible).  Appended to the scratch copy of src/queue/owning.rs.
//!
//! All harnesses are BOUNDED STAND-INS for the Verus unit `owning` (which has no bound): queue size N = 2 or 4,
//! buffer size B = 4, the number of events stated per harness.  Within those bounds the inputs are fully
//! symbolic (which posted buffer the device picks, the length it reports, the bytes it writes, the ring index
//! the history starts at).
#![allow(dead_code, missing_docs, clippy::undocumented_unsafe_blocks)]
use super::super::{DescFlags, Descriptor};
use super::*;
use crate::transport::DeviceType;
use crate::verif_support::*;
use core::sync::atomic::Ordering;

const B: usize = 4;
type Q<const N: usize> = OwningQueue<KHal, N, B>;

/// a fully stocked owning queue on a fresh virtqueue whose ring indices (driver and device side) start at `start`
fn mk<const N: usize>(event_idx: bool, start: u16) -> (Q<N>, KTransport) {
    log_reset();
    let mut t = KTransport::new(DeviceType::Socket);
    let mut q = VirtQueue::<KHal, N>::new(&mut t, 0, false, event_idx, false).unwrap();
    q.avail_idx = start;
    q.last_used_idx = start;
    unsafe {
        (*q.avail.as_ptr()).idx.store(start, Ordering::Release);
        (*q.used.as_ptr()).idx.store(start, Ordering::Release);
    }
    let oq = Q::<N>::new(q).unwrap();
    (oq, t)
}

unsafe fn dev_desc<const N: usize>(q: &VirtQueue<KHal, N>, i: usize) -> Descriptor {
    unsafe { (*(q.desc.as_ptr() as *const [Descriptor; N]))[i].clone() }
}
fn buf_addr<const N: usize>(oq: &Q<N>, i: usize) -> usize {
    oq.buffers[i].as_ptr() as *mut u8 as usize
}
fn avail_idx<const N: usize>(oq: &Q<N>) -> u16 {
    unsafe { (*oq.queue.avail.as_ptr()).idx.load(Ordering::Acquire) }
}
fn avail_slot<const N: usize>(oq: &Q<N>, idx: u16) -> u16 {
    unsafe { (*oq.queue.avail.as_ptr()).ring[(idx & (N as u16 - 1)) as usize] }
}
/// the device writes `bytes` into the buffer of `token` and marks it used with length `len`
fn dev_complete<const N: usize>(oq: &mut Q<N>, token: u16, len: u32, bytes: [u8; B]) {
    unsafe {
        *oq.buffers[token as usize].as_ptr() = bytes;
        let u = oq.queue.used.as_ptr();
        let uidx = (*u).idx.load(Ordering::Acquire);
        let s = (uidx & (N as u16 - 1)) as usize;
        (*u).ring[s].id = token as u32;
        (*u).ring[s].len = len;
        (*u).idx.store(uidx.wrapping_add(1), Ordering::Release);
    }
}
/// C19 invariant on the real data structure: every token i is posted with exactly `buffers[i]`
/// (descriptor i: device address of buffers[i], length B, device-writable, no chaining), nothing free
fn fully_stocked<const N: usize>(oq: &Q<N>) {
    assert!(oq.queue.num_used as usize == N, "C19: number of posted buffers is not the queue size");
    let mut i = 0;
    while i < N {
        let d = unsafe { dev_desc(&oq.queue, i) };
        assert!(d.addr == buf_addr(oq, i) as u64 + BOUNCE, "C19: descriptor i does not describe buffers[i]");
        assert!(d.len as usize == B && d.flags == DescFlags::WRITE, "C19: posted buffer is not one device-writable buffer of BUFFER_SIZE bytes");
        i += 1;
    }
}

/// `new` on a fresh queue: tokens 0..N-1 in order (its assert_eq! does not fire), the N ring slots following the
/// start index hold 0..N-1, available index advanced by N, every buffer a distinct allocation, no notification
/// sent by `new`.  Bound: B = 4 and N / event-index / start index as stated at the two instantiations below.
fn new_stocked<const N: usize>(event_idx: bool, start: u16) {
    let (oq, _t) = mk::<N>(event_idx, start);
    fully_stocked(&oq);
    assert!(avail_idx(&oq) == start.wrapping_add(N as u16) && oq.queue.avail_idx == avail_idx(&oq), "C19: new() must publish exactly SIZE entries");
    let mut i = 0;
    while i < N {
        assert!(avail_slot(&oq, start.wrapping_add(i as u16)) == i as u16, "C19: new() must post buffer i under token i");
        let mut j = 0;
        while j < i {
            assert!(buf_addr(&oq, i) != buf_addr(&oq, j), "C19: two tokens share one buffer");
            j += 1;
        }
        i += 1;
    }
    let mut e = 0;
    while e < log_len() {
        assert!(!matches!(log_at(e), Ev::Notify(_)), "C19: new() leaves notification to the caller");
        e += 1;
    }
}

/// quick tier: N = 2, ANY event-index setting, start index 0xffff (the index wraps inside `new`)
#[kani::proof]
#[kani::unwind(10)]
fn c19_new_stocked_n2() { new_stocked::<2>(kani::any(), 0xffff); }
/// thorough tier: N = 4, event-index on, start index 0xfffe
#[kani::proof]
#[kani::unwind(10)]
fn c19_new_stocked_n4() { new_stocked::<4>(true, 0xfffe); }

/// one `poll` round; returns what the handler saw
fn poll_once<const N: usize>(oq: &mut Q<N>, t: &mut KTransport, ret: Result<Option<u8>>) -> (usize, usize, usize, [u8; B], Result<Option<u8>>) {
    let mut calls = 0usize;
    let mut ptr = 0usize;
    let mut len = 0usize;
    let mut copy = [0u8; B];
    let r = oq.poll(t, |b: &[u8]| {
        calls += 1;
        ptr = b.as_ptr() as usize;
        len = b.len();
        let mut k = 0;
        while k < B {
            if k < b.len() { copy[k] = b[k]; }
            k += 1;
        }
        ret
    });
    (calls, ptr, len, copy, r)
}

/// C19/C18: two events, each on ANY posted buffer (symbolic tokens, equal or different: the second may reuse the
/// first buffer), ANY written length 0..=B, ANY bytes, ANY handler outcome (Ok(None)/Ok(Some)/Err), polled one by one:
/// the handler runs exactly once per event on exactly the first `len` bytes of that token's buffer, its result is
/// returned, the buffer is re-posted under the same token in the next available-ring slot, and the queue is fully
/// stocked after every poll.  The ring indices start at 0xfffd so both 16-bit indices wrap during the history.
/// Bound: B = 4; N, number of events and event-index as stated at the instantiations below.
fn poll_any_token<const N: usize>(event_idx: bool, rounds: usize, symbolic: bool) {
    let (mut oq, mut t) = mk::<N>(event_idx, 0xfffd);
    let mut round = 0;
    while round < rounds {
        let tok: u16 = if symbolic { kani::any() } else { (N - 1) as u16 };
        kani::assume((tok as usize) < N);
        let len: u32 = if symbolic { kani::any() } else { 3 };
        kani::assume(len as usize <= B);
        let bytes: [u8; B] = if symbolic { kani::any() } else { [9, 8, 7, 6] };
        let hret: Result<Option<u8>> = if !symbolic { Ok(Some(7)) } else {
            match kani::any::<u8>() % 3 { 0 => Ok(None), 1 => Ok(Some(7)), _ => Err(Error::Unsupported) } };
        let a0 = avail_idx(&oq);
        dev_complete(&mut oq, tok, len, bytes);
        let (calls, ptr, l, copy, r) = poll_once(&mut oq, &mut t, hret);
        assert!(calls == 1, "C19: handler must run exactly once per completed buffer");
        assert!(ptr == buf_addr(&oq, tok as usize) && l == len as usize, "C19: delivered slice is not the first len bytes of the token's buffer");
        let mut k = 0;
        while k < B {
            if k < l { assert!(copy[k] == bytes[k], "C19: delivered bytes differ from what the device wrote"); }
            k += 1;
        }
        assert!(r == hret, "C19: poll must return the handler's result");
        // re-posted under the same token, in the next slot, index advanced by one
        assert!(avail_idx(&oq) == a0.wrapping_add(1), "C19: exactly one buffer must be re-posted");
        assert!(avail_slot(&oq, a0) == tok, "C19: buffer re-posted under a different token");
        fully_stocked(&oq);
        if symbolic {
            // nothing further is pending
            let (calls2, _, _, _, r2) = poll_once(&mut oq, &mut t, Ok(Some(9)));
            assert!(calls2 == 0 && r2 == Ok(None), "C19: an event was delivered twice");
        }
        round += 1;
    }
}

/// thorough tier (smoke run, concrete): N = 2, one event on buffer 1, length 3, bytes 9 8 7, handler returns Ok(Some(7))
#[kani::proof]
#[kani::unwind(10)]
fn c19_poll_smoke_n2() { poll_any_token::<2>(false, 1, false); }
/// thorough tier: N = 2, one event on ANY of the two buffers, ANY length/bytes/handler outcome, no event-index
#[kani::proof]
#[kani::unwind(10)]
fn c19_poll_any_token_n2() { poll_any_token::<2>(false, 1, true); }
/// C19: a scripted history on the real code (CBMC runs out of memory on symbolic multi-event histories here, so
/// the multi-event scenarios are concrete, straight-line; the unbounded claim rests on the Verus unit).
/// `burst == false`: the device completes `toks[k]` (writing `lens[k]` bytes) and the driver polls, K times;
/// `burst == true`: all K completions happen first, then K polls.  Checked per poll: handler once, slice is the first
/// `lens[k]` bytes of `buffers[toks[k]]` with the bytes written for event k, result returned, same token re-posted in
/// the next ring slot; finally the queue is fully stocked and a further poll delivers nothing.
fn poll_script<const N: usize, const K: usize>(event_idx: bool, start: u16, toks: [u16; K], lens: [u32; K], burst: bool) {
    let (mut oq, mut t) = mk::<N>(event_idx, start);
    let a0 = avail_idx(&oq);
    let mut k = 0;
    if burst {
        while k < K { dev_complete(&mut oq, toks[k], lens[k], [10 + k as u8; B]); k += 1; }
    }
    k = 0;
    while k < K {
        if !burst { dev_complete(&mut oq, toks[k], lens[k], [10 + k as u8; B]); }
        let (calls, ptr, l, copy, r) = poll_once(&mut oq, &mut t, Ok(Some(k as u8)));
        assert!(calls == 1 && r == Ok(Some(k as u8)), "C19: each completion must be delivered exactly once, in completion order");
        assert!(ptr == buf_addr(&oq, toks[k] as usize) && l == lens[k] as usize, "C19: delivered slice is not the first len bytes of the token's buffer");
        let mut j = 0;
        while j < B {
            if j < l { assert!(copy[j] == 10 + k as u8, "C19: delivered bytes differ from what the device wrote for this event"); }
            j += 1;
        }
        assert!(avail_idx(&oq) == a0.wrapping_add(k as u16 + 1), "C19: exactly one buffer must be re-posted per poll");
        assert!(avail_slot(&oq, a0.wrapping_add(k as u16)) == toks[k], "C19: buffer re-posted under a different token");
        k += 1;
    }
    fully_stocked(&oq);
    let (c, _, _, _, r) = poll_once(&mut oq, &mut t, Ok(Some(99)));
    assert!(c == 0 && r == Ok(None), "C19: an event was delivered twice");
}
/// thorough tier: N = 2, the same buffer used twice in a row, then the other one (reuse), lengths 3, 0, 4 (= B)
#[kani::proof]
#[kani::unwind(10)]
fn c19_script_reuse_n2() { poll_script::<2, 3>(false, 0xfffd, [1, 1, 0], [3, 0, 4], false); }
/// thorough tier: N = 2, burst of two completions in the order 1, 0 (reverse of posting order), event-index on
#[kani::proof]
#[kani::unwind(10)]
fn c19_script_burst_n2() { poll_script::<2, 2>(true, 0xffff, [1, 0], [2, 4], true); }
/// thorough tier: N = 4, out-of-order completions 2, 0 as a burst
#[kani::proof]
#[kani::unwind(10)]
fn c19_script_burst_n4() { poll_script::<4, 2>(false, 0xffff, [2, 0], [1, 4], true); }

/// C07 on `poll`: ANY used-ring contents (index, id, length: full 16/32/32-bit domains): the call ends in
/// Ok(None) / Err(WrongToken) / Err(IoError) / a delivery of at most B bytes of the reported token's buffer; never a
/// panic or an out-of-bounds access (Kani's memory-safety checks).  After IoError the buffer is NOT re-posted:
/// SIZE-1 buffers remain posted (documented behaviour, see report).  Bound: B = 4, one poll, N as instantiated.
fn poll_any_used_ring<const N: usize>() {
    let (mut oq, mut t) = mk::<N>(false, 0);
    let uidx: u16 = kani::any();
    let id: u32 = kani::any();
    let len: u32 = kani::any();
    unsafe {
        let u = oq.queue.used.as_ptr();
        (*u).ring[0].id = id;
        (*u).ring[0].len = len;
        (*u).idx.store(uidx, Ordering::Release);
    }
    let (calls, ptr, l, _, r) = poll_once(&mut oq, &mut t, Ok(Some(5)));
    if uidx == 0 {
        assert!(calls == 0 && r == Ok(None), "C19: delivery without a completion");
        fully_stocked(&oq);
    } else if id as u16 as usize >= N {
        assert!(calls == 0 && r == Err(Error::WrongToken), "C07: token outside the buffer table must be WrongToken");
        fully_stocked(&oq);
    } else if len as usize > B {
        assert!(calls == 0 && r == Err(Error::IoError), "C07: length beyond the buffer must be IoError");
        assert!(oq.queue.num_used as usize == N - 1, "C19: after IoError exactly one buffer is missing from the queue");
    } else {
        assert!(calls == 1 && r == Ok(Some(5)), "C19: completion not delivered");
        assert!(l == len as usize && l <= B && ptr == buf_addr(&oq, id as u16 as usize), "C07: slice exceeds or misses the backing buffer");
        fully_stocked(&oq);
    }
}
/// thorough tier: N = 2 (the N = 4 instantiation makes CBMC abort / run out of memory on this machine)
#[kani::proof]
#[kani::unwind(10)]
fn c19_poll_any_used_ring_n2() { poll_any_used_ring::<2>(); }

/// WITNESS of suspected defect (C07), EXPECTED TO FAIL on the unchanged tree; not listed in any props.d tier.
/// The device (1) completes buffer 1 claiming B+1 bytes: `poll` answers IoError and leaves token 1 un-posted;
/// (2) reports token 1 again.  `pop` only checks `token < SIZE`, so `VirtQueue::pop_used` is called for a token that
/// is not outstanding (its `# Safety` clause is violated): the buffer is passed to `Hal::unshare` a second time, with
/// device address 0 instead of the address `share` returned, and `num_used` drops below the number of posted buffers.
/// Concrete input: N = 2, used ring = [(id 1, len 5), (id 1, len 1)].
#[kani::proof]
#[kani::unwind(10)]
fn c07_witness_ioerror_then_repeated_token() {
    let (mut oq, mut t) = mk::<2>(false, 0);
    dev_complete(&mut oq, 1, (B + 1) as u32, [0; B]);
    let (c1, _, _, _, r1) = poll_once(&mut oq, &mut t, Ok(Some(1)));
    assert!(c1 == 0 && r1 == Err(Error::IoError));
    assert!(oq.queue.num_used == 1);
    let l0 = log_len();
    dev_complete(&mut oq, 1, 1, [0; B]);
    let (_c2, _, _, _, _r2) = poll_once(&mut oq, &mut t, Ok(Some(2)));
    let mut e = l0;
    while e < log_len() {
        if let Ev::Unshare(paddr, v, _l, _d) = log_at(e) {
            assert!(paddr == v as u64 + BOUNCE, "C07: buffer unshared a second time, with a device address share did not return");
        }
        e += 1;
    }
}
