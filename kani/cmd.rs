//! Kani harnesses over the real GPU driver (C20).  Appended to the scratch copy of src/device/gpu/mod.rs as a child
//! module, so the private items of `crate::device::gpu` are visible.
//!
//! * `c20_gpu_consts`, `c20_gpu_layout_hdr`, `c20_gpu_layout_2d`, `c20_gpu_layout_scanout`, `c20_gpu_layout_cursor`,
//!   `c20_gpu_layout_resp`, `c20_gpu_layout_edid`, `c20_pages`: full-domain symbolic inputs, no input-dependent loop
//!   (only fixed <= 64-iteration comparisons): COMPLETE proofs.  They validate the hand-written memory images
//!   (`Wire::wire` / `Wire::decodes`) of units/cmd_gpu_pre.vrs, the constants and the `div_ceil` stub against the
//!   real zerocopy types / functions.
//! * `c20_gpu_new`, `c20_gpu_resolution`, `c20_gpu_move_cursor`: BOUNDED stand-ins (bounds stated at each harness) that
//!   run the real driver on the real queues (QUEUE_SIZE = 2 as fixed by the driver) against a reference device.
//!   Scenarios with more than one request (flush order, change_resolution, the D9 overflow witness) and `get_edid`
//!   (1 KiB arrays) exhaust CBMC's memory here and are not provided: the command order is the Verus proof
//!   (units/cmd_gpu.vrs).
#![allow(dead_code, missing_docs, clippy::undocumented_unsafe_blocks, static_mut_refs)]
extern crate alloc;
use super::*;
use crate::transport::DeviceType;
use crate::verif_support::{log_at, log_len, Ev, KTransport};
#[path = "/verif/kani/cmd_dev.rs"]
mod dev;
use dev::*;

const F_EDID: u64 = 1 << 1;
const F_VERSION_1: u64 = 1 << 32;

/// struct virtio_gpu_ctrl_hdr { le32 type; le32 flags; le64 fence_id; le32 ctx_id; le32 padding } (VirtIO 1.x 5.7.6.7)
fn put_hdr(b: &mut [u8], t: u32, flags: u32, fence: u64, ctx: u32, pad: u32) {
    put32(b, 0, t); put32(b, 4, flags); put64(b, 8, fence); put32(b, 16, ctx); put32(b, 20, pad);
}
/// struct virtio_gpu_rect { le32 x; le32 y; le32 width; le32 height }
fn put_rect(b: &mut [u8], off: usize, r: Rect) {
    put32(b, off, r.x); put32(b, off + 4, r.y); put32(b, off + 8, r.width); put32(b, off + 12, r.height);
}
fn any_rect() -> Rect { Rect { x: kani::any(), y: kani::any(), width: kani::any(), height: kani::any() } }
fn any_hdr() -> (CtrlHeader, [u8; 64]) {
    let (t, flags, fence, ctx, pad): (u32, u32, u64, u32, u32) = (kani::any(), kani::any(), kani::any(), kani::any(), kani::any());
    let mut b = [0u8; 64];
    put_hdr(&mut b, t, flags, fence, ctx, pad);
    (CtrlHeader { hdr_type: Command(t), flags, fence_id: fence, ctx_id: ctx, _padding: pad }, b)
}

// ===================================================================================================
// Complete proofs (full input domain)
// ===================================================================================================

/// C20 K-complete: command / response codes, queue and resource ids, the cursor rectangle, `Rect::default()`,
/// `CtrlHeader::with_type`, `check_type` (for ALL type pairs) and the structure sizes used by units/cmd_gpu*.vrs.
#[kani::proof]
fn c20_gpu_consts() {
    assert!(Command::GET_DISPLAY_INFO.0 == 0x100 && Command::RESOURCE_CREATE_2D.0 == 0x101 && Command::RESOURCE_UNREF.0 == 0x102
        && Command::SET_SCANOUT.0 == 0x103 && Command::RESOURCE_FLUSH.0 == 0x104 && Command::TRANSFER_TO_HOST_2D.0 == 0x105
        && Command::RESOURCE_ATTACH_BACKING.0 == 0x106 && Command::RESOURCE_DETACH_BACKING.0 == 0x107 && Command::GET_EDID.0 == 0x10a
        && Command::UPDATE_CURSOR.0 == 0x300 && Command::MOVE_CURSOR.0 == 0x301, "C20: command codes");
    assert!(Command::OK_NODATA.0 == 0x1100 && Command::OK_DISPLAY_INFO.0 == 0x1101 && Command::OK_EDID.0 == 0x1104, "C20: response codes");
    assert!(QUEUE_TRANSMIT == 0 && QUEUE_CURSOR == 1 && QUEUE_SIZE == 2 && SCANOUT_ID == 0, "C20: queue ids");
    assert!(RESOURCE_ID_FB == 0xbabe && RESOURCE_ID_CURSOR == 0xdade, "C20: resource ids");
    assert!(CURSOR_RECT.x == 0 && CURSOR_RECT.y == 0 && CURSOR_RECT.width == 64 && CURSOR_RECT.height == 64, "C20: cursor rect");
    let z = Rect::default();
    assert!(z.x == 0 && z.y == 0 && z.width == 0 && z.height == 0, "C20: Rect::default()");
    assert!(core::mem::size_of::<CtrlHeader>() == 24 && core::mem::size_of::<Rect>() == 16
        && core::mem::size_of::<RespDisplayInfo>() == 48 && core::mem::size_of::<RespEdid>() == 1056
        && core::mem::size_of::<CmdGetEdid>() == 32 && core::mem::size_of::<ResourceCreate2D>() == 40
        && core::mem::size_of::<ResourceAttachBacking>() == 48 && core::mem::size_of::<ResourceDetachBacking>() == 32
        && core::mem::size_of::<ResourceUnref>() == 32 && core::mem::size_of::<SetScanout>() == 48
        && core::mem::size_of::<TransferToHost2D>() == 56 && core::mem::size_of::<ResourceFlush>() == 48
        && core::mem::size_of::<CursorPos>() == 16 && core::mem::size_of::<UpdateCursor>() == 56, "C20: structure sizes");
    let t: u32 = kani::any();
    let h = CtrlHeader::with_type(Command(t));
    assert!(h.hdr_type.0 == t && h.flags == 0 && h.fence_id == 0 && h.ctx_id == 0 && h._padding == 0, "C20: with_type");
    let e: u32 = kani::any();
    assert!(h.check_type(Command(e)) == if t == e { Ok(()) } else { Err(Error::IoError) }, "C20: check_type");
    assert!(PAGE_SIZE == 4096, "C20: PAGE_SIZE");
}

/// C20 K-complete: `CtrlHeader` image for ALL field values, both directions (as_bytes; read_from_bytes).
#[kani::proof]
#[kani::unwind(66)]
fn c20_gpu_layout_hdr() {
    let (h, img) = any_hdr();
    assert!(eq_prefix(h.as_bytes(), &img, 24) && h.as_bytes().len() == 24, "C20: control header image");
    let raw: [u8; 24] = kani::any();
    let d = CtrlHeader::read_from_bytes(&raw).unwrap();
    assert!(d.hdr_type.0 == u32::from_le_bytes([raw[0], raw[1], raw[2], raw[3]])
        && d.flags == u32::from_le_bytes([raw[4], raw[5], raw[6], raw[7]])
        && d.fence_id == u64::from_le_bytes([raw[8], raw[9], raw[10], raw[11], raw[12], raw[13], raw[14], raw[15]])
        && d.ctx_id == u32::from_le_bytes([raw[16], raw[17], raw[18], raw[19]])
        && d._padding == u32::from_le_bytes([raw[20], raw[21], raw[22], raw[23]]), "C20: control header decoding");
    let r = any_rect();
    let mut rb = [0u8; 64];
    put_rect(&mut rb, 0, r);
    assert!(eq_prefix(r.as_bytes(), &rb, 16) && r.as_bytes().len() == 16, "C20: rect image");
}

/// C20 K-complete: RESOURCE_CREATE_2D / ATTACH_BACKING / DETACH_BACKING / UNREF images for ALL field values.
#[kani::proof]
#[kani::unwind(66)]
fn c20_gpu_layout_2d() {
    let (h, img) = any_hdr();
    let (id, w, hh, n, len, pad): (u32, u32, u32, u32, u32, u32) = (kani::any(), kani::any(), kani::any(), kani::any(), kani::any(), kani::any());
    let addr: u64 = kani::any();
    let mut b = img;
    put32(&mut b, 24, id); put32(&mut b, 28, 1); put32(&mut b, 32, w); put32(&mut b, 36, hh);
    let c = ResourceCreate2D { header: h, resource_id: id, format: Format::B8G8R8A8UNORM, width: w, height: hh };
    assert!(eq_prefix(c.as_bytes(), &b, 40) && c.as_bytes().len() == 40, "C20: RESOURCE_CREATE_2D image (format B8G8R8A8_UNORM = 1)");
    let mut b = img;
    put32(&mut b, 24, id); put32(&mut b, 28, n); put64(&mut b, 32, addr); put32(&mut b, 40, len); put32(&mut b, 44, pad);
    let c = ResourceAttachBacking { header: h, resource_id: id, nr_entries: n, addr, length: len, _padding: pad };
    assert!(eq_prefix(c.as_bytes(), &b, 48) && c.as_bytes().len() == 48, "C20: RESOURCE_ATTACH_BACKING image");
    let mut b = img;
    put32(&mut b, 24, id); put32(&mut b, 28, pad);
    let c = ResourceDetachBacking { header: h, resource_id: id, _padding: pad };
    assert!(eq_prefix(c.as_bytes(), &b, 32) && c.as_bytes().len() == 32, "C20: RESOURCE_DETACH_BACKING image");
    let c = ResourceUnref { header: h, resource_id: id, _padding: pad };
    assert!(eq_prefix(c.as_bytes(), &b, 32) && c.as_bytes().len() == 32, "C20: RESOURCE_UNREF image");
}

/// C20 K-complete: SET_SCANOUT / TRANSFER_TO_HOST_2D / RESOURCE_FLUSH / GET_EDID images for ALL field values.
#[kani::proof]
#[kani::unwind(66)]
fn c20_gpu_layout_scanout() {
    let (h, img) = any_hdr();
    let r = any_rect();
    let (id, sc, pad): (u32, u32, u32) = (kani::any(), kani::any(), kani::any());
    let off: u64 = kani::any();
    let mut b = img;
    put_rect(&mut b, 24, r); put32(&mut b, 40, sc); put32(&mut b, 44, id);
    let c = SetScanout { header: h, rect: r, scanout_id: sc, resource_id: id };
    assert!(eq_prefix(c.as_bytes(), &b, 48) && c.as_bytes().len() == 48, "C20: SET_SCANOUT image");
    let mut b = img;
    put_rect(&mut b, 24, r); put64(&mut b, 40, off); put32(&mut b, 48, id); put32(&mut b, 52, pad);
    let c = TransferToHost2D { header: h, rect: r, offset: off, resource_id: id, _padding: pad };
    assert!(eq_prefix(c.as_bytes(), &b, 56) && c.as_bytes().len() == 56, "C20: TRANSFER_TO_HOST_2D image");
    let mut b = img;
    put_rect(&mut b, 24, r); put32(&mut b, 40, id); put32(&mut b, 44, pad);
    let c = ResourceFlush { header: h, rect: r, resource_id: id, _padding: pad };
    assert!(eq_prefix(c.as_bytes(), &b, 48) && c.as_bytes().len() == 48, "C20: RESOURCE_FLUSH image");
    let mut b = img;
    put32(&mut b, 24, sc); put32(&mut b, 28, pad);
    let c = CmdGetEdid { header: h, scanout: sc, _padding: pad };
    assert!(eq_prefix(c.as_bytes(), &b, 32) && c.as_bytes().len() == 32, "C20: GET_EDID image");
}

/// C20 K-complete: UPDATE_CURSOR / MOVE_CURSOR image for ALL field values.
#[kani::proof]
#[kani::unwind(66)]
fn c20_gpu_layout_cursor() {
    let (h, img) = any_hdr();
    let (sc, x, y, ppad, id, hx, hy, pad): (u32, u32, u32, u32, u32, u32, u32, u32) =
        (kani::any(), kani::any(), kani::any(), kani::any(), kani::any(), kani::any(), kani::any(), kani::any());
    let mut b = img;
    put32(&mut b, 24, sc); put32(&mut b, 28, x); put32(&mut b, 32, y); put32(&mut b, 36, ppad);
    put32(&mut b, 40, id); put32(&mut b, 44, hx); put32(&mut b, 48, hy); put32(&mut b, 52, pad);
    let c = UpdateCursor { header: h, pos: CursorPos { scanout_id: sc, x, y, _padding: ppad }, resource_id: id, hot_x: hx, hot_y: hy, _padding: pad };
    assert!(eq_prefix(c.as_bytes(), &b, 56) && c.as_bytes().len() == 56, "C20: UPDATE_CURSOR image");
}

/// C20 K-complete: `RespDisplayInfo::read_from_prefix` for ALL 64-byte response prefixes: header @0, pmodes[0].r @24
/// (x, y, width, height), enabled @40, flags @44.
#[kani::proof]
fn c20_gpu_layout_resp() {
    let raw: [u8; 64] = kani::any();
    let d = RespDisplayInfo::read_from_prefix(&raw).unwrap().0;
    let le = |o: usize| u32::from_le_bytes([raw[o], raw[o + 1], raw[o + 2], raw[o + 3]]);
    assert!(d.header.hdr_type.0 == le(0) && d.header.flags == le(4) && d.header.ctx_id == le(16) && d.header._padding == le(20),
        "C20: display info header decoding");
    assert!(d.rect.x == le(24) && d.rect.y == le(28) && d.rect.width == le(32) && d.rect.height == le(36), "C20: display info rect decoding");
    assert!(d.enabled == le(40) && d.flags == le(44), "C20: display info enabled/flags decoding");
    let short: [u8; 47] = kani::any();
    assert!(RespDisplayInfo::read_from_prefix(&short).is_err(), "C20: a short buffer is refused");
}

/// C20 K-complete: `RespEdid::read_from_prefix` for ALL response contents: size @24, edid[i] = byte 32+i for ALL i.
#[kani::proof]
fn c20_gpu_layout_edid() {
    let raw: [u8; 1056] = kani::any();
    let d = RespEdid::read_from_prefix(&raw).unwrap().0;
    assert!(d.header.hdr_type.0 == u32::from_le_bytes([raw[0], raw[1], raw[2], raw[3]]), "C20: EDID response type");
    assert!(d.size == u32::from_le_bytes([raw[24], raw[25], raw[26], raw[27]]), "C20: EDID size decoding");
    let i: usize = kani::any();
    kani::assume(i < 1024);
    assert!(d.edid[i] == raw[32 + i], "C20: EDID blob decoding");
}

/// C20 K-complete: `pages(n)` is ceil(n / 4096) for ALL n (the `usize::div_ceil` stub of units/cmd_gpu_pre.vrs).
#[kani::proof]
fn c20_pages() {
    let n: usize = kani::any();
    let p = crate::pages(n);
    assert!(p == n / 4096 + if n % 4096 != 0 { 1 } else { 0 }, "C20: pages() is not the rounded-up page count");
    if n <= usize::MAX - 4095 {
        assert!(p == (n + 4095) / 4096 && p * 4096 >= n, "C20: pages(n) pages do not cover n bytes");
    }
}

// ===================================================================================================
// Bounded scenarios on the real driver + real queues
// ===================================================================================================
const QS: usize = QUEUE_SIZE as usize;

fn mk_gpu(features: u64) -> VirtIOGpu<DHal, KTransport> {
    dev_reset();
    let mut t = KTransport::new(DeviceType::GPU);
    t.device_features = features;
    VirtIOGpu::<DHal, KTransport>::new(t).unwrap()
}
fn resp_nodata(t: u32) -> [u8; CAP] {
    let mut b = [0u8; CAP];
    put_hdr(&mut b, t, 0, 0, 0, 0);
    b
}

/// C20 K-bounded: what `new` establishes for the request paths (`wf()` of units/cmd_gpu.vrs): both bounce buffers are
/// PAGE_SIZE bytes, EDID gating follows the negotiated feature.  Bounds: offered features VERSION_1 x EDID symbolic.
#[kani::proof]
#[kani::unwind(40)]
fn c20_gpu_new() {
    let edid: bool = kani::any();
    let gpu = mk_gpu(F_VERSION_1 | if edid { F_EDID } else { 0 });
    assert!(gpu.queue_buf_send.len() == 4096 && gpu.queue_buf_recv.len() == 4096, "C20: bounce buffers are not one page");
    assert!(gpu.has_edid == edid, "C20: has_edid differs from the negotiated feature");
    assert!(gpu.frame_buffer_dma.is_none() && gpu.cursor_buffer_dma.is_none() && gpu.rect.is_none(), "C20: fresh driver has no backing");
    assert!(dma_n() == 4, "C20: two queues");
}

/// C20 K-bounded: `resolution()` on the real driver + queue: one chain [send buffer (device-readable, starts with a
/// bare GET_DISPLAY_INFO header), receive buffer (device-writable)] on queue 0; the result is the width/height the
/// device reported iff the response type is OK_DISPLAY_INFO, else IoError.  ALL response types, ALL rect values.
/// Bounds: fresh queues, one call.
#[kani::proof]
#[kani::unwind(66)]
fn c20_gpu_resolution() {
    let mut gpu = mk_gpu(F_VERSION_1);
    let rt: u32 = kani::any();
    let r = any_rect();
    let mut ans = resp_nodata(rt);
    put_rect(&mut ans, 24, r);
    dev_used_push(1, QS, 0, 48);
    dev_arm(&ans);
    let n0 = log_len();
    let res = gpu.resolution();
    assert!(sh_n() == 2, "C20: a control request is not one [request, response] chain");
    let mut img = [0u8; CAP];
    put_hdr(&mut img, 0x100, 0, 0, 0, 0);
    assert!(sh(0).dir == 0 && sh(0).len == 4096 && eq_prefix(&sh(0).head, &img, 24), "C20: request is not a bare GET_DISPLAY_INFO header");
    assert!(sh(1).dir == 1 && sh(1).len == 4096, "C20: response buffer is not device-writable");
    assert!(dev_avail_idx(0, QS) == 1 && dev_avail_idx(2, QS) == 0, "C20: not exactly one chain on the control queue");
    assert!(unsh_n() == 2 && !unsh_bad(), "C20: buffers still shared after the request");
    assert!(res == if rt == 0x1101 { Ok((r.width, r.height)) } else { Err(Error::IoError) }, "C20: resolution differs from the device's report / wrong response type accepted");
    assert!(log_len() == n0 + 1 && log_at(n0) == Ev::Notify(0), "C20: notification");
}

/// C20 K-bounded: `move_cursor(x, y)`: one chain with only a device-readable part (MOVE_CURSOR for resource 0xdade on
/// scanout 0, hot spot 0/0) on the cursor queue (queue 1).  ALL positions.  Bounds: fresh queues, one call.
#[kani::proof]
#[kani::unwind(66)]
fn c20_gpu_move_cursor() {
    let mut gpu = mk_gpu(F_VERSION_1);
    let (x, y): (u32, u32) = (kani::any(), kani::any());
    dev_used_push(3, QS, 0, 0);
    let n0 = log_len();
    let res = gpu.move_cursor(x, y);
    assert!(res == Ok(()), "C20: move_cursor failed");
    let mut c = [0u8; CAP];
    put_hdr(&mut c, 0x301, 0, 0, 0, 0);
    put32(&mut c, 24, 0); put32(&mut c, 28, x); put32(&mut c, 32, y); put32(&mut c, 36, 0);
    put32(&mut c, 40, 0xdade); put32(&mut c, 44, 0); put32(&mut c, 48, 0); put32(&mut c, 52, 0);
    assert!(sh_n() == 1 && sh(0).dir == 0 && eq_prefix(&sh(0).head, &c, 56), "C20: not one MOVE_CURSOR(cursor, 0, x, y) command");
    assert!(dev_avail_idx(2, QS) == 1 && dev_avail_idx(0, QS) == 0, "C20: cursor command not on the cursor queue");
    assert!(log_len() == n0 + 1 && log_at(n0) == Ev::Notify(1), "C20: notification of the cursor queue");
}
