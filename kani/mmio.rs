//! Kani harnesses for C10 on the real `MmioTransport` (child module of `crate::transport::mmio`, so the
//! private fields of `VirtIOHeader` / `MmioTransport` are visible).  Appended to the scratch copy of
//! src/transport/mmio.rs.
//!
//! The register block is a real `VirtIOHeader` overlaid on a `[u32; 64]` array with arbitrary contents.
//! Every MMIO access of safe-mmio (non-aarch64 backend = `ptr::read_volatile` / `ptr::write_volatile`) is
//! intercepted by Kani function stubs that record (offset, width, direction, value) in program order and
//! then perform the access.  So the harnesses see the ordered access trace of the *real* code.
#![allow(dead_code, missing_docs, clippy::undocumented_unsafe_blocks)]
use super::*;
use crate::transport::some::SomeTransport;

// ---------------------------------------------------------------------------
// access trace
// ---------------------------------------------------------------------------
const TR_MAX: usize = 16;
#[derive(Clone, Copy, PartialEq, Eq)]
struct Acc {
    write: bool,
    off: isize,
    width: usize,
    val: u32,
}
const NOACC: Acc = Acc { write: false, off: -1, width: 0, val: 0 };
static mut TR: [Acc; TR_MAX] = [NOACC; TR_MAX];
static mut TR_N: usize = 0;
static mut BASE: *const u8 = core::ptr::null();

fn tr_reset(base: *const u8) {
    unsafe {
        TR_N = 0;
        BASE = base;
    }
}
fn tr_len() -> usize {
    unsafe { TR_N }
}
fn tr(i: usize) -> Acc {
    unsafe { TR[i] }
}
fn rd(off: isize, val: u32) -> Acc {
    Acc { write: false, off, width: 4, val }
}
fn wr(off: isize, val: u32) -> Acc {
    Acc { write: true, off, width: 4, val }
}

/// stub of `core::ptr::write_volatile`: record, then store
unsafe fn rec_write_volatile<T>(dst: *mut T, src: T) {
    unsafe {
        let w = core::mem::size_of::<T>();
        let v: u32 = if w == 4 { core::ptr::read(&src as *const T as *const u32) } else { 0 };
        assert!(TR_N < TR_MAX, "C10: more MMIO accesses than any operation may make");
        TR[TR_N] = Acc { write: true, off: (dst as *const u8).offset_from(BASE), width: w, val: v };
        TR_N += 1;
        core::ptr::write(dst, src);
    }
}
/// stub of `core::ptr::read_volatile`: load, then record
unsafe fn rec_read_volatile<T>(src: *const T) -> T {
    unsafe {
        let w = core::mem::size_of::<T>();
        let r = core::ptr::read(src);
        let v: u32 = if w == 4 { core::ptr::read(&r as *const T as *const u32) } else { 0 };
        assert!(TR_N < TR_MAX, "C10: more MMIO accesses than any operation may make");
        TR[TR_N] = Acc { write: false, off: (src as *const u8).offset_from(BASE), width: w, val: v };
        TR_N += 1;
        r
    }
}

// ---------------------------------------------------------------------------
// helpers
// ---------------------------------------------------------------------------
const W_MAGIC: usize = 0;
const W_VERSION: usize = 1;
const W_DEVICE_ID: usize = 2;

fn known_device_id(id: u32) -> bool {
    (1 <= id && id <= 13) || (16 <= id && id <= 25)
}

/// arbitrary register block contents that pass the probe, with the given version
fn any_mem(version: u32) -> [u32; 64] {
    let mut mem: [u32; 64] = kani::any();
    mem[W_MAGIC] = MAGIC_VALUE;
    mem[W_VERSION] = version;
    let id: u32 = kani::any();
    kani::assume(known_device_id(id));
    mem[W_DEVICE_ID] = id;
    mem
}
fn any_version() -> u32 {
    if kani::any() { LEGACY_VERSION } else { MODERN_VERSION }
}
fn transport(mem: &mut [u32; 64]) -> MmioTransport<'static> {
    let p = NonNull::new(mem.as_mut_ptr() as *mut VirtIOHeader).unwrap();
    tr_reset(mem.as_ptr() as *const u8);
    let t = unsafe { MmioTransport::new(p, 0x100) }.unwrap();
    // forget the three probe reads: the trace starts with the operation under test
    tr_reset(mem.as_ptr() as *const u8);
    t
}

// ---------------------------------------------------------------------------
// K-complete (loop-free, full input domain): layout table, constants, stub contracts
// ---------------------------------------------------------------------------

/// C10 K-complete: the rule by which the Verus unit derives register offsets from the text of the real
/// `#[repr(C)] struct VirtIOHeader` (offset = sum of the sizes of the preceding fields, every wrapper is one
/// 4-byte word, `[u32; N]` is N words) agrees with `offset_of!`/`size_of` on the compiled struct, and the
/// wrapper type of every field (read/write direction) is the one in the table.  No input: complete.
#[kani::proof]
fn c10_layout() {
    let mut acc = 0usize;
    macro_rules! chk {
        ($f:ident, $t:ty, $words:expr) => {
            assert!(core::mem::offset_of!(VirtIOHeader, $f) == acc, "C10: register offset differs from the prefix-sum rule");
            assert!(core::mem::size_of::<$t>() == 4 * $words, "C10: register field is not the stated number of 32-bit words");
            // the field really has this (direction) type
            let _: fn(&VirtIOHeader) -> &$t = |h| &h.$f;
            acc += 4 * $words;
        };
    }
    chk!(magic, ReadPure<u32>, 1);
    chk!(version, ReadPure<u32>, 1);
    chk!(device_id, ReadPure<u32>, 1);
    chk!(vendor_id, ReadPure<u32>, 1);
    chk!(device_features, ReadPure<u32>, 1);
    chk!(device_features_sel, WriteOnly<u32>, 1);
    chk!(__r1, [u32; 2], 2);
    chk!(driver_features, WriteOnly<u32>, 1);
    chk!(driver_features_sel, WriteOnly<u32>, 1);
    chk!(legacy_guest_page_size, WriteOnly<u32>, 1);
    chk!(__r2, u32, 1);
    chk!(queue_sel, WriteOnly<u32>, 1);
    chk!(queue_num_max, ReadPure<u32>, 1);
    chk!(queue_num, WriteOnly<u32>, 1);
    chk!(legacy_queue_align, WriteOnly<u32>, 1);
    chk!(legacy_queue_pfn, ReadPureWrite<u32>, 1);
    chk!(queue_ready, ReadPureWrite<u32>, 1);
    chk!(__r3, [u32; 2], 2);
    chk!(queue_notify, WriteOnly<u32>, 1);
    chk!(__r4, [u32; 3], 3);
    chk!(interrupt_status, ReadPure<u32>, 1);
    chk!(interrupt_ack, WriteOnly<u32>, 1);
    chk!(__r5, [u32; 2], 2);
    chk!(status, ReadPureWrite<DeviceStatus>, 1);
    chk!(__r6, [u32; 3], 3);
    chk!(queue_desc_low, WriteOnly<u32>, 1);
    chk!(queue_desc_high, WriteOnly<u32>, 1);
    chk!(__r7, [u32; 2], 2);
    chk!(queue_driver_low, WriteOnly<u32>, 1);
    chk!(queue_driver_high, WriteOnly<u32>, 1);
    chk!(__r8, [u32; 2], 2);
    chk!(queue_device_low, WriteOnly<u32>, 1);
    chk!(queue_device_high, WriteOnly<u32>, 1);
    chk!(__r9, [u32; 21], 21);
    chk!(config_generation, ReadPure<u32>, 1);
    assert!(acc == 0x100, "C10: register block is not 0x100 bytes");
    assert!(core::mem::size_of::<VirtIOHeader>() == 0x100, "C10: register block is not 0x100 bytes");
    assert!(core::mem::align_of::<VirtIOHeader>() == 4, "C10: register block alignment is not 4");
    // the specified offsets themselves (VirtIO 1.x 4.2.2 / 4.2.4), independently of the rule
    assert!(core::mem::offset_of!(VirtIOHeader, queue_sel) == 0x030, "C10: QueueSel offset");
    assert!(core::mem::offset_of!(VirtIOHeader, queue_notify) == 0x050, "C10: QueueNotify offset");
    assert!(core::mem::offset_of!(VirtIOHeader, status) == 0x070, "C10: Status offset");
    assert!(core::mem::offset_of!(VirtIOHeader, queue_device_high) == 0x0a4, "C10: QueueDeviceHigh offset");
    assert!(core::mem::offset_of!(VirtIOHeader, config_generation) == 0x0fc, "C10: ConfigGeneration offset");
}

/// C10 K-complete: the constants copied into the Verus unit and the `size_of` stubs.  No input: complete.
#[kani::proof]
fn c10_consts() {
    assert!(MAGIC_VALUE == 0x7472_6976, "C10: magic constant");
    assert!(LEGACY_VERSION == 1 && MODERN_VERSION == 2, "C10: version constants");
    assert!(CONFIG_SPACE_OFFSET == 0x100, "C10: config space offset");
    assert!(PAGE_SIZE == 0x1000 && PAGE_SIZE_PHYS == 0x1000, "C10: page size constants");
    assert!(size_of::<Descriptor>() == 16, "C10: size_of::<Descriptor>() stub");
    assert!(size_of::<u16>() == 2, "C10: size_of::<u16>() stub");
    assert!(u32::from(MmioVersion::Legacy) == 1 && u32::from(MmioVersion::Modern) == 2, "C10: version numbers");
}

/// C10 K-complete: the bitflags models of the Verus unit (R6) on the real types, for all 2^32 words.
#[kani::proof]
#[kani::unwind(10)]
fn c10_flag_models() {
    let x: u32 = kani::any();
    assert!(DeviceStatus::empty().bits() == 0, "C10: DeviceStatus::empty model");
    assert!(DeviceStatus::from_bits_retain(x).bits() == x, "C10: DeviceStatus is a transparent u32");
    assert!(core::mem::size_of::<DeviceStatus>() == 4, "C10: DeviceStatus is one 32-bit word");
    assert!(InterruptStatus::empty().bits() == 0, "C10: InterruptStatus::empty model");
    assert!(InterruptStatus::from_bits_truncate(x).bits() == x & 3, "C10: InterruptStatus::from_bits_truncate model");
    assert!(InterruptStatus::from_bits_truncate(x).is_empty() == (x & 3 == 0), "C10: InterruptStatus::is_empty model");
    assert!(DeviceStatus::ACKNOWLEDGE.bits() == 1 && DeviceStatus::DRIVER.bits() == 2 && DeviceStatus::DRIVER_OK.bits() == 4
        && DeviceStatus::FEATURES_OK.bits() == 8 && DeviceStatus::DEVICE_NEEDS_RESET.bits() == 64
        && DeviceStatus::FAILED.bits() == 128, "C10: DeviceStatus constants");
    // the generated bitflags 2.x method models (//@BITFLAGS), on the real macro-generated methods, all x, y
    let y: u32 = kani::any();
    let (a, b) = (DeviceStatus::from_bits_retain(x), DeviceStatus::from_bits_retain(y));
    const ALL: u32 = 0xcf;
    assert!(DeviceStatus::all().bits() == ALL, "C10: bitflags all()");
    assert!(a.is_empty() == (x == 0) && a.is_all() == (x & ALL == ALL), "C10: bitflags is_empty / is_all");
    assert!(a.contains(b) == (x & y == y) && a.intersects(b) == (x & y != 0), "C10: bitflags contains / intersects");
    assert!(a.union(b).bits() == x | y && a.intersection(b).bits() == x & y && a.difference(b).bits() == x & !y
        && a.symmetric_difference(b).bits() == x ^ y && a.complement().bits() == !x & ALL, "C10: bitflags set operations");
    assert!((a | b).bits() == x | y && (a & b).bits() == x & y && (a - b).bits() == x & !y && (a ^ b).bits() == x ^ y
        && (!a).bits() == !x & ALL, "C10: bitflags operators");
    assert!(DeviceStatus::from_bits_truncate(x).bits() == x & ALL, "C10: bitflags from_bits_truncate");
    assert!(DeviceStatus::from_bits(x).map(|f| f.bits()) == (if x & !ALL == 0 { Some(x) } else { None }), "C10: bitflags from_bits");
    let mut c = a; c.insert(b); assert!(c.bits() == x | y, "C10: bitflags insert");
    let mut c = a; c.remove(b); assert!(c.bits() == x & !y, "C10: bitflags remove");
    let mut c = a; c.toggle(b); assert!(c.bits() == x ^ y, "C10: bitflags toggle");
    let v: bool = kani::any();
    let mut c = a; c.set(b, v); assert!(c.bits() == (if v { x | y } else { x & !y }), "C10: bitflags set");
}

/// C10 K-complete: contract of the Verus stub `device_type_try_from` on the real
/// `DeviceType::try_from(u32)` for all 2^32 ids: accepted iff known (1..=13, 16..=25; never 0).
#[kani::proof]
fn c10_device_type_accepts() {
    let id: u32 = kani::any();
    match DeviceType::try_from(id) {
        Ok(_) => assert!(known_device_id(id), "C10: an unknown (or zero) device id is accepted"),
        Err(e) => {
            assert!(!known_device_id(id), "C10: a known device id is refused");
            assert!(e == DeviceTypeError::InvalidDeviceType(id), "C10: wrong error value for an unknown device id");
        }
    }
}

/// Side finding (NOT an obligation of C10, not registered in props.d/C10.json): the accepted device type is
/// the one whose VirtIO device number is the id that was read.  Fails on the unchanged crate for id = 5
/// ("memory ballooning (traditional)"): `DeviceType::try_from(5)` yields `MemoryBalloon` (= 13).
#[kani::proof]
fn c10_side_device_type_identity() {
    let id: u32 = kani::any();
    if let Ok(t) = DeviceType::try_from(id) {
        assert!(t as u32 == id, "side finding: device id maps to a DeviceType with a different device number");
    }
}

/// C10 K-complete: `MmioVersion::try_from` for all 2^32 version words.
#[kani::proof]
fn c10_version_try_from() {
    let v: u32 = kani::any();
    match MmioVersion::try_from(v) {
        Ok(MmioVersion::Legacy) => assert!(v == 1, "C10: version accepted as legacy is not 1"),
        Ok(MmioVersion::Modern) => assert!(v == 2, "C10: version accepted as modern is not 2"),
        Err(e) => {
            assert!(v != 1 && v != 2, "C10: version 1 or 2 refused");
            assert!(e == MmioError::UnsupportedVersion(v), "C10: wrong error for unsupported version");
        }
    }
}

// ---------------------------------------------------------------------------
// Ordered access traces of the real code.  Loop-free except where stated; inputs range over their full
// domains, the register block contents are arbitrary: complete proofs for the operation they exercise.
// ---------------------------------------------------------------------------

/// C10 K-complete: probing.  Arbitrary header contents and region size: accepted iff size >= 0x100, magic,
/// version in {1,2}, known device id; exactly three 32-bit reads (magic, device id, version - fewer on early
/// refusal), no write; the block is unchanged.
#[kani::proof]
#[kani::stub(core::ptr::write_volatile, rec_write_volatile)]
#[kani::stub(core::ptr::read_volatile, rec_read_volatile)]
fn c10_k_probe() {
    let mut mem: [u32; 64] = kani::any();
    let before = mem;
    let size: usize = kani::any();
    let p = NonNull::new(mem.as_mut_ptr() as *mut VirtIOHeader).unwrap();
    tr_reset(mem.as_ptr() as *const u8);
    let r = unsafe { MmioTransport::new(p, size) };
    let n = tr_len();
    let good = size >= 0x100 && before[0] == 0x7472_6976 && (before[1] == 1 || before[1] == 2) && known_device_id(before[2]);
    match r {
        Ok(t) => {
            assert!(good, "C10: probe accepted a bad header or too small a region");
            assert!(n == 3, "C10: probe does not make exactly three accesses");
            assert!(tr(0) == rd(0x000, before[0]) && tr(1) == rd(0x008, before[2]) && tr(2) == rd(0x004, before[1]),
                "C10: probe accesses are not 32-bit reads of MagicValue, DeviceID, Version");
            assert!((t.version == MmioVersion::Legacy) == (before[1] == 1), "C10: probed version differs from the Version register");
            assert!(t.config_space.len() == size - 0x100, "C10: config space is not the rest of the region");
            core::mem::forget(t);
        }
        Err(e) => {
            assert!(!good, "C10: probe refused a good header");
            if size < 0x100 {
                assert!(e == MmioError::MmioRegionTooSmall && n == 0, "C10: too small a region must be refused without any access");
            } else if before[0] != 0x7472_6976 {
                assert!(e == MmioError::BadMagic(before[0]), "C10: wrong refusal for bad magic");
            }
            assert!(n <= 3, "C10: probe makes more than three accesses");
        }
    }
    let i: usize = kani::any();
    if i < n {
        assert!(!tr(i).write && tr(i).width == 4, "C10: probe made a write or a non-32-bit access");
    }
    let k: usize = kani::any();
    kani::assume(k < 64);
    assert!(mem[k] == before[k], "C10: probing changed the register block");
}

/// C10 K-complete: drop resets the device: exactly one access, `W(0x070, 0)`.
#[kani::proof]
#[kani::stub(core::ptr::write_volatile, rec_write_volatile)]
#[kani::stub(core::ptr::read_volatile, rec_read_volatile)]
fn c10_k_drop() {
    let mut mem = any_mem(any_version());
    let t = transport(&mut mem);
    drop(t);
    assert!(tr_len() == 1 && tr(0) == wr(0x070, 0), "C10: drop does not reset the device with exactly W(0x070,0)");
}

/// C10 K-complete: feature words.  `read_device_features`: W(0x014,0) R(0x010) W(0x014,1) R(0x010), result
/// hi:lo; `write_driver_features(f)`: W(0x024,0) W(0x020,lo f) W(0x024,1) W(0x020,hi f); all 2^64 f.
#[kani::proof]
#[kani::stub(core::ptr::write_volatile, rec_write_volatile)]
#[kani::stub(core::ptr::read_volatile, rec_read_volatile)]
fn c10_k_features() {
    let mut mem = any_mem(any_version());
    let feat = mem[0x010 / 4];
    let mut t = transport(&mut mem);
    if kani::any() {
        let r = t.read_device_features();
        assert!(tr_len() == 4, "C10: read_device_features access count");
        assert!(tr(0) == wr(0x014, 0) && tr(1) == rd(0x010, feat) && tr(2) == wr(0x014, 1) && tr(3) == rd(0x010, feat),
            "C10: read_device_features access sequence");
        assert!(r == (feat as u64) | ((feat as u64) << 32), "C10: read_device_features does not combine low and high word");
    } else {
        let f: u64 = kani::any();
        t.write_driver_features(f);
        assert!(tr_len() == 4, "C10: write_driver_features access count");
        assert!(tr(0) == wr(0x024, 0) && tr(1) == wr(0x020, (f & 0xffff_ffff) as u32) && tr(2) == wr(0x024, 1)
            && tr(3) == wr(0x020, (f / 0x1_0000_0000) as u32), "C10: write_driver_features access sequence");
    }
    core::mem::forget(t);
}

/// C10 K-complete: the single-register operations, legacy and modern, all argument values.
#[kani::proof]
#[kani::stub(core::ptr::write_volatile, rec_write_volatile)]
#[kani::stub(core::ptr::read_volatile, rec_read_volatile)]
fn c10_k_misc() {
    let version = any_version();
    let legacy = version == 1;
    let mut mem = any_mem(version);
    let before = mem;
    let mut t = transport(&mut mem);
    let q: u16 = kani::any();
    let op: u8 = kani::any();
    match op {
        0 => {
            t.notify(q);
            assert!(tr_len() == 1 && tr(0) == wr(0x050, q as u32), "C10: notify is not exactly W(0x050,q)");
        }
        1 => {
            let s: u32 = kani::any();
            t.set_status(DeviceStatus::from_bits_retain(s));
            assert!(tr_len() == 1 && tr(0) == wr(0x070, s), "C10: set_status is not exactly W(0x070,s)");
        }
        2 => {
            let s = t.get_status();
            assert!(tr_len() == 1 && tr(0) == rd(0x070, before[0x070 / 4]) && s.bits() == before[0x070 / 4],
                "C10: get_status is not exactly R(0x070)");
        }
        3 => {
            let r = t.max_queue_size(q);
            assert!(tr_len() == 2 && tr(0) == wr(0x030, q as u32) && tr(1) == rd(0x034, before[0x034 / 4]) && r == before[0x034 / 4],
                "C10: max_queue_size is not W(0x030,q) R(0x034)");
        }
        4 => {
            let r = t.queue_used(q);
            let off: isize = if legacy { 0x040 } else { 0x044 };
            let v = before[off as usize / 4];
            assert!(tr_len() == 2 && tr(0) == wr(0x030, q as u32) && tr(1) == rd(off, v) && r == (v != 0),
                "C10: queue_used is not W(0x030,q) then R(QueuePFN|QueueReady)");
        }
        5 => {
            let r = t.ack_interrupt();
            let v = before[0x060 / 4];
            if v != 0 {
                assert!(tr_len() == 2 && tr(0) == rd(0x060, v) && tr(1) == wr(0x064, v), "C10: ack_interrupt is not R(0x060) W(0x064,v)");
            } else {
                assert!(tr_len() == 1 && tr(0) == rd(0x060, 0), "C10: ack_interrupt with nothing pending must only read");
            }
            assert!(r.bits() == v & 3, "C10: ack_interrupt result");
        }
        6 => {
            let g: u32 = kani::any();
            t.set_guest_page_size(g);
            if legacy {
                assert!(tr_len() == 1 && tr(0) == wr(0x028, g), "C10: legacy set_guest_page_size is not W(0x028,g)");
            } else {
                assert!(tr_len() == 0, "C10: modern set_guest_page_size must not touch any register");
            }
        }
        7 => {
            assert!(t.requires_legacy_layout() == legacy && tr_len() == 0, "C10: requires_legacy_layout");
            assert!(t.device_type() == DeviceType::try_from(before[2]).unwrap() && tr_len() == 0, "C10: device_type");
            assert!((t.version() == MmioVersion::Legacy) == legacy && tr_len() == 0, "C10: version");
        }
        _ => {
            let v = t.vendor_id();
            assert!(tr_len() == 1 && tr(0) == rd(0x00c, before[0x00c / 4]) && v == before[0x00c / 4], "C10: vendor_id is not R(0x00c)");
        }
    }
    core::mem::forget(t);
}

/// C10 K-complete: modern `queue_set`, all queue indices, sizes and 64-bit address triples.
#[kani::proof]
#[kani::stub(core::ptr::write_volatile, rec_write_volatile)]
#[kani::stub(core::ptr::read_volatile, rec_read_volatile)]
fn c10_k_queue_set_modern() {
    let mut mem = any_mem(MODERN_VERSION);
    let mut t = transport(&mut mem);
    let q: u16 = kani::any();
    let n: u32 = kani::any();
    let d: u64 = kani::any();
    let a: u64 = kani::any();
    let u: u64 = kani::any();
    t.queue_set(q, n, d, a, u);
    assert!(tr_len() == 9, "C10: modern queue_set access count");
    assert!(tr(0) == wr(0x030, q as u32), "C10: modern queue_set must select the queue first");
    assert!(tr(1) == wr(0x038, n), "C10: modern queue_set QueueNum");
    assert!(tr(2) == wr(0x080, (d % 0x1_0000_0000) as u32) && tr(3) == wr(0x084, (d / 0x1_0000_0000) as u32), "C10: QueueDescLow/High");
    assert!(tr(4) == wr(0x090, (a % 0x1_0000_0000) as u32) && tr(5) == wr(0x094, (a / 0x1_0000_0000) as u32), "C10: QueueDriverLow/High");
    assert!(tr(6) == wr(0x0a0, (u % 0x1_0000_0000) as u32) && tr(7) == wr(0x0a4, (u / 0x1_0000_0000) as u32), "C10: QueueDeviceLow/High");
    assert!(tr(8) == wr(0x044, 1), "C10: QueueReady := 1 must be the last access");
    core::mem::forget(t);
}

/// C10 K-complete: legacy `queue_set`, all queue indices, sizes and address triples: either a panic before any
/// access, or W(0x030,q) W(0x038,n) W(0x03c,4096) W(0x040,pfn) with pfn * 4096 == descriptors and the
/// legacy layout.
#[kani::proof]
#[kani::stub(core::ptr::write_volatile, rec_write_volatile)]
#[kani::stub(core::ptr::read_volatile, rec_read_volatile)]
fn c10_k_queue_set_legacy() {
    let mut mem = any_mem(LEGACY_VERSION);
    let mut t = transport(&mut mem);
    let q: u16 = kani::any();
    let n: u32 = kani::any();
    let d: u64 = kani::any();
    let a: u64 = kani::any();
    let u: u64 = kani::any();
    // the subtraction `driver_area - descriptors` panics (overflow check) when driver_area < descriptors:
    // a refusal before any access; restrict to the returning executions
    kani::assume(a >= d && u >= d);
    kani::assume(a - d == 16 * n as u64);
    let x = 16 * n as u64 + 2 * (n as u64 + 3);
    kani::assume(u - d == (x + 4096) & !4095);
    kani::assume(d / 4096 <= u32::MAX as u64 && d % 4096 == 0);
    t.queue_set(q, n, d, a, u);
    assert!(tr_len() == 4, "C10: legacy queue_set access count");
    assert!(tr(0) == wr(0x030, q as u32) && tr(1) == wr(0x038, n) && tr(2) == wr(0x03c, 4096), "C10: legacy queue_set select/size/alignment");
    assert!(tr(3).write && tr(3).off == 0x040 && tr(3).width == 4 && tr(3).val as u64 * 4096 == d, "C10: QueuePFN must be last and designate the descriptor table");
    core::mem::forget(t);
}

/// C10: `queue_unset`.  Legacy: W(0x030,q) W(0x038,0) W(0x03c,0) W(0x040,0).  Modern: W(0x030,q) W(0x044,0),
/// read-back of 0x044 (plain memory returns the 0 just written: one poll; the polling loop for devices that
/// answer later is covered by the Verus contract), then the seven parameter registers := 0.
#[kani::proof]
#[kani::unwind(3)]
#[kani::stub(core::ptr::write_volatile, rec_write_volatile)]
#[kani::stub(core::ptr::read_volatile, rec_read_volatile)]
fn c10_k_queue_unset() {
    let version = any_version();
    let mut mem = any_mem(version);
    let mut t = transport(&mut mem);
    let q: u16 = kani::any();
    t.queue_unset(q);
    if version == 1 {
        assert!(tr_len() == 4 && tr(0) == wr(0x030, q as u32) && tr(1) == wr(0x038, 0) && tr(2) == wr(0x03c, 0) && tr(3) == wr(0x040, 0),
            "C10: legacy queue_unset access sequence");
    } else {
        assert!(tr_len() == 10, "C10: modern queue_unset access count");
        assert!(tr(0) == wr(0x030, q as u32) && tr(1) == wr(0x044, 0) && tr(2) == rd(0x044, 0), "C10: modern queue_unset select / ready := 0 / read back");
        assert!(tr(3) == wr(0x038, 0) && tr(4) == wr(0x080, 0) && tr(5) == wr(0x084, 0) && tr(6) == wr(0x090, 0) && tr(7) == wr(0x094, 0)
            && tr(8) == wr(0x0a0, 0) && tr(9) == wr(0x0a4, 0), "C10: modern queue_unset parameter clearing");
    }
    core::mem::forget(t);
}

// ---------------------------------------------------------------------------
// SomeTransport (src/transport/some.rs): every method of the wrapper around an MMIO transport makes exactly
// the accesses, and returns exactly the value, of the same method of the wrapped transport with the same
// arguments.  (The extractor cannot process some.rs - `#[cfg(target_arch)]` match arms - so this delegation
// is checked here on the real code, for all argument values, legacy and modern.)
// ---------------------------------------------------------------------------
fn snapshot() -> ([Acc; TR_MAX], usize) {
    unsafe { (TR, TR_N) }
}

/// C10 K-complete (loop-free except the one-iteration read-back of queue_unset): delegation of all
/// register-level methods.  The same operation is run on two identical register blocks, once through
/// `SomeTransport::Mmio`, once directly; traces, results and final block contents must agree.
#[kani::proof]
#[kani::unwind(3)]
#[kani::stub(core::ptr::write_volatile, rec_write_volatile)]
#[kani::stub(core::ptr::read_volatile, rec_read_volatile)]
fn c10_k_some_delegates() {
    let version = any_version();
    let mut mem_a = any_mem(version);
    let mut mem_b = mem_a;
    let q: u16 = kani::any();
    let x32: u32 = kani::any();
    let x64: u64 = kani::any();
    let op: u8 = kani::any();
    kani::assume(op < 13);
    let d: u64 = kani::any();
    let a: u64 = kani::any();
    let u: u64 = kani::any();
    if version == 1 && op == 9 {
        // legacy queue_set: only the returning executions (see c10_k_queue_set_legacy)
        kani::assume(a >= d && u >= d && a - d == 16 * x32 as u64);
        kani::assume(u - d == ((16 * x32 as u64 + 2 * (x32 as u64 + 3)) + 4096) & !4095);
        kani::assume(d / 4096 <= u32::MAX as u64 && d % 4096 == 0);
    }
    // through the wrapper
    let mut s: SomeTransport = transport(&mut mem_a).into();
    let ra: u64 = match op {
        0 => { s.notify(q); 0 }
        1 => { s.set_status(DeviceStatus::from_bits_retain(x32)); 0 }
        2 => s.get_status().bits() as u64,
        3 => s.max_queue_size(q) as u64,
        4 => s.queue_used(q) as u64,
        5 => s.ack_interrupt().bits() as u64,
        6 => { s.set_guest_page_size(x32); 0 }
        7 => s.read_device_features(),
        8 => { s.write_driver_features(x64); 0 }
        9 => { s.queue_set(q, x32, d, a, u); 0 }
        10 => { s.queue_unset(q); 0 }
        11 => s.requires_legacy_layout() as u64,
        _ => s.device_type() as u64,
    };
    let (tr_a, n_a) = snapshot();
    core::mem::forget(s);
    // directly
    let mut t = transport(&mut mem_b);
    let rb: u64 = match op {
        0 => { t.notify(q); 0 }
        1 => { t.set_status(DeviceStatus::from_bits_retain(x32)); 0 }
        2 => t.get_status().bits() as u64,
        3 => t.max_queue_size(q) as u64,
        4 => t.queue_used(q) as u64,
        5 => t.ack_interrupt().bits() as u64,
        6 => { t.set_guest_page_size(x32); 0 }
        7 => t.read_device_features(),
        8 => { t.write_driver_features(x64); 0 }
        9 => { t.queue_set(q, x32, d, a, u); 0 }
        10 => { t.queue_unset(q); 0 }
        11 => t.requires_legacy_layout() as u64,
        _ => t.device_type() as u64,
    };
    let (tr_b, n_b) = snapshot();
    core::mem::forget(t);
    assert!(ra == rb, "C10: SomeTransport returns a different value than the wrapped MMIO transport");
    assert!(n_a == n_b, "C10: SomeTransport makes a different number of register accesses than the wrapped MMIO transport");
    let i: usize = kani::any();
    if i < n_a && i < TR_MAX {
        assert!(tr_a[i] == tr_b[i], "C10: SomeTransport makes different register accesses than the wrapped MMIO transport");
    }
    let k: usize = kani::any();
    kani::assume(k < 64);
    assert!(mem_a[k] == mem_b[k], "C10: SomeTransport leaves the register block in a different state");
}
