//! Kani harnesses over the real vsock driver (child module of `crate::device::socket::vsock`, so the
//! private fields of `ConnectionInfo` / `VirtIOSocket` and the private functions are visible).
//! Appended to the scratch copy of src/device/socket/vsock.rs.
//!
//! Naming: `c17_*` / `c18_*` loop-free harnesses over full-domain symbolic inputs (complete proofs for
//! the stated function), `c17_d2_*` full-domain harnesses that FAIL on a tree with defect D2 (they are
//! the concrete counterexample source for the Verus overflow obligations), `k17_*` bounded scenarios.
#![allow(dead_code, missing_docs, clippy::undocumented_unsafe_blocks)]
use super::*;
use crate::device::socket::protocol::SocketType;
use crate::transport::DeviceType;
use crate::verif_support::*;
use crate::{BufferDirection, Error, PhysAddr, PAGE_SIZE};
use core::ptr::NonNull;
use zerocopy::byteorder::{LittleEndian, U16, U32, U64};

// ---------------------------------------------------------------------------------------------
// reference arithmetic (VirtIO 1.x 5.10.6.3, counters are elements of Z/2^32)
// ---------------------------------------------------------------------------------------------
fn spec_in_flight(tx_cnt: u32, peer_fwd_cnt: u32) -> u32 {
    tx_cnt.wrapping_sub(peer_fwd_cnt)
}
fn spec_peer_free(peer_buf_alloc: u32, tx_cnt: u32, peer_fwd_cnt: u32) -> u32 {
    peer_buf_alloc.saturating_sub(spec_in_flight(tx_cnt, peer_fwd_cnt))
}

fn any_addr() -> VsockAddr {
    VsockAddr { cid: kani::any(), port: kani::any() }
}
fn any_info() -> ConnectionInfo {
    ConnectionInfo {
        dst: any_addr(),
        src_port: kani::any(),
        peer_buf_alloc: kani::any(),
        peer_fwd_cnt: kani::any(),
        tx_cnt: kani::any(),
        buf_alloc: kani::any(),
        fwd_cnt: kani::any(),
        has_pending_credit_request: kani::any(),
    }
}
fn any_hdr() -> VirtioVsockHdr {
    VirtioVsockHdr {
        src_cid: U64::new(kani::any()),
        dst_cid: U64::new(kani::any()),
        src_port: U32::new(kani::any()),
        dst_port: U32::new(kani::any()),
        len: U32::new(kani::any()),
        socket_type: U16::new(kani::any()),
        op: U16::new(kani::any()),
        flags: U32::new(kani::any()),
        buf_alloc: U32::new(kani::any()),
        fwd_cnt: U32::new(kani::any()),
    }
}

/// VirtIO 1.x 5.10.6 operation codes
fn spec_code(op: VirtioVsockOp) -> u16 {
    match op {
        VirtioVsockOp::Invalid => 0,
        VirtioVsockOp::Request => 1,
        VirtioVsockOp::Response => 2,
        VirtioVsockOp::Rst => 3,
        VirtioVsockOp::Shutdown => 4,
        VirtioVsockOp::Rw => 5,
        VirtioVsockOp::CreditUpdate => 6,
        VirtioVsockOp::CreditRequest => 7,
    }
}

/// K∎ (complete: all 2^16 codes): the op <-> code maps of protocol.rs are the spec table; validates the
/// Verus stubs `From<VirtioVsockOp> for U16LE`, `From<SocketType> for U16LE` and the contract of `try_from`.
#[kani::proof]
fn c17_op_codes() {
    let code: u16 = kani::any();
    let v: U16<LittleEndian> = U16::new(code);
    match VirtioVsockOp::try_from(v) {
        Ok(op) => {
            assert!(code <= 7, "C18: unknown operation code accepted");
            assert!(spec_code(op) == code, "C18: operation decoded to the wrong variant");
            let back: U16<LittleEndian> = op.into();
            assert!(back.get() == code, "C17: operation encoded with the wrong code");
        }
        Err(e) => {
            assert!(code > 7, "C18: known operation code rejected");
            assert!(e == SocketError::UnknownOperation(code), "C18: wrong error for an unknown operation");
        }
    }
    let s: U16<LittleEndian> = SocketType::Stream.into();
    let q: U16<LittleEndian> = SocketType::SeqPacket.into();
    assert!(s.get() == 1 && q.get() == 2, "C17: socket type codes");
}

/// K∎ (complete): the hand-written Verus models of derive(Default), thiserror #[from], bitflags
/// StreamShutdown, and the constants used by the unit.
#[kani::proof]
fn c17_stub_models() {
    let d = ConnectionInfo::default();
    assert!(
        d.dst.cid == 0 && d.dst.port == 0 && d.src_port == 0 && d.peer_buf_alloc == 0 && d.peer_fwd_cnt == 0 && d.tx_cnt == 0
            && d.buf_alloc == 0 && d.fwd_cnt == 0 && !d.has_pending_credit_request,
        "C17: ConnectionInfo::default() is not all-zero"
    );
    let a = VsockAddr::default();
    assert!(a.cid == 0 && a.port == 0, "C17: VsockAddr::default()");
    let which: u8 = kani::any();
    let n: u16 = kani::any();
    let e = match which {
        0 => SocketError::InsufficientBufferSpaceInPeer,
        1 => SocketError::UnknownOperation(n),
        2 => SocketError::InvalidOperation,
        3 => SocketError::UnexpectedDataInPacket,
        4 => SocketError::BufferTooShort,
        5 => SocketError::InvalidNumber,
        _ => SocketError::NotConnected,
    };
    assert!(Error::from(e) == Error::SocketDeviceError(e), "C17: From<SocketError> for Error");
    assert!(StreamShutdown::RECEIVE.bits() == 1 && StreamShutdown::SEND.bits() == 2, "C17: StreamShutdown bits");
    assert!((StreamShutdown::SEND | StreamShutdown::RECEIVE).bits() == 3, "C17: StreamShutdown union");
    let bits: u32 = kani::any();
    let f: U32<LittleEndian> = StreamShutdown::from_bits_retain(bits).into();
    assert!(f.get() == bits, "C17: From<StreamShutdown> for U32");
    assert!(size_of::<VirtioVsockHdr>() == 44, "C17: header size");
    assert!(QUEUE_SIZE == 8 && DEFAULT_RX_BUFFER_SIZE == 512, "C17: constants of the unit");
    let x: u32 = kani::any();
    let y: usize = x.try_into().unwrap();
    assert!(y as u64 == x as u64, "C17: u32 -> usize");
}

/// the 44-byte little-endian layout of VirtIO 1.x 5.10.6 `struct virtio_vsock_hdr`
fn spec_hdr_bytes(h: &VirtioVsockHdr) -> [u8; 44] {
    let mut b = [0u8; 44];
    b[0..8].copy_from_slice(&h.src_cid.get().to_le_bytes());
    b[8..16].copy_from_slice(&h.dst_cid.get().to_le_bytes());
    b[16..20].copy_from_slice(&h.src_port.get().to_le_bytes());
    b[20..24].copy_from_slice(&h.dst_port.get().to_le_bytes());
    b[24..28].copy_from_slice(&h.len.get().to_le_bytes());
    b[28..30].copy_from_slice(&h.socket_type.get().to_le_bytes());
    b[30..32].copy_from_slice(&h.op.get().to_le_bytes());
    b[32..36].copy_from_slice(&h.flags.get().to_le_bytes());
    b[36..40].copy_from_slice(&h.buf_alloc.get().to_le_bytes());
    b[40..44].copy_from_slice(&h.fwd_cnt.get().to_le_bytes());
    b
}

/// K∎ (complete: every header value): `as_bytes()` of the real packed struct is the spec layout
/// (validates the Verus stub `VirtioVsockHdr::as_bytes` / spec function `hdr_bytes`).
#[kani::proof]
#[kani::unwind(46)]
fn c17_hdr_layout() {
    let h = any_hdr();
    let want = spec_hdr_bytes(&h);
    let got = h.as_bytes();
    assert!(got.len() == 44, "C17: header is not 44 bytes");
    let mut i = 0;
    while i < 44 {
        assert!(got[i] == want[i], "C17: header byte differs from the VirtIO layout");
        i += 1;
    }
}

/// K∎ for the two buffer shapes (48 bytes: header + 4; 43 bytes: too short): `read_from_prefix` is the
/// inverse of `as_bytes` (validates the Verus stub `hdr_read_from_prefix` / `hdr_parse`).
#[kani::proof]
#[kani::unwind(50)]
fn c17_hdr_roundtrip() {
    let buf: [u8; 48] = kani::any();
    let (h, rest) = VirtioVsockHdr::read_from_prefix(&buf[..]).map_err(|_| SocketError::BufferTooShort).unwrap();
    assert!(rest.len() == 4 && rest.as_ptr() == buf[44..].as_ptr(), "C18: rest after the header");
    let b = spec_hdr_bytes(&h);
    let mut i = 0;
    while i < 44 {
        assert!(b[i] == buf[i], "C18: parsed header does not denote the received bytes");
        i += 1;
    }
    let short: [u8; 43] = kani::any();
    assert!(VirtioVsockHdr::read_from_prefix(&short[..]).is_err(), "C18: short buffer accepted as header");
}

/// K∎ (complete): every header `new_header` builds carries the connection's addressing, stream type and the
/// driver's current buf_alloc / fwd_cnt.
#[kani::proof]
fn c17_new_header() {
    let ci = any_info();
    let cid: u64 = kani::any();
    let h = ci.new_header(cid);
    assert!(h.src_cid.get() == cid && h.dst_cid.get() == ci.dst.cid, "C17: header cids");
    assert!(h.src_port.get() == ci.src_port && h.dst_port.get() == ci.dst.port, "C17: header ports");
    assert!(h.socket_type.get() == 1, "C17: header socket type is not STREAM");
    assert!(h.buf_alloc.get() == ci.buf_alloc && h.fwd_cnt.get() == ci.fwd_cnt, "C17: header does not advertise the current credit");
    assert!(h.len.get() == 0 && h.op.get() == 0 && h.flags.get() == 0, "C17: header defaults");
}

/// K∎ (complete): `update_for_event` records exactly the peer's credit and clears the pending flag on a
/// credit update only.
#[kani::proof]
fn c17_update_for_event() {
    let mut ci = any_info();
    let before = ci.clone();
    let h = any_hdr();
    if let Ok(ev) = VsockEvent::from_header(&h) {
        ci.update_for_event(&ev);
        assert!(ci.peer_buf_alloc == h.buf_alloc.get() && ci.peer_fwd_cnt == h.fwd_cnt.get(), "C17: peer credit not recorded");
        assert!(ci.tx_cnt == before.tx_cnt && ci.fwd_cnt == before.fwd_cnt && ci.buf_alloc == before.buf_alloc
                && ci.dst == before.dst && ci.src_port == before.src_port, "C17: update_for_event touched other fields");
        let is_cu = h.op.get() == 6;
        assert!(ci.has_pending_credit_request == (before.has_pending_credit_request && !is_cu), "C17: pending credit request flag");
    }
}

/// K∎ (complete: all 2^16 op codes x every header): `from_header` is the total map of the spec.
#[kani::proof]
fn c18_from_header_full_domain() {
    let h = any_hdr();
    let code = h.op.get();
    let len = h.len.get();
    match VsockEvent::from_header(&h) {
        Ok(ev) => {
            assert!(1 <= code && code <= 7, "C18: invalid/unknown operation produced an event");
            assert!(code == 5 || len == 0, "C18: payload accepted on a non-RW operation");
            assert!(ev.source.cid == h.src_cid.get() && ev.source.port == h.src_port.get(), "C18: event source");
            assert!(ev.destination.cid == h.dst_cid.get() && ev.destination.port == h.dst_port.get(), "C18: event destination");
            assert!(ev.buffer_status.buffer_allocation == h.buf_alloc.get() && ev.buffer_status.forward_count == h.fwd_cnt.get(),
                    "C17: event does not carry the peer's credit");
            let want = match code {
                1 => VsockEventType::ConnectionRequest,
                2 => VsockEventType::Connected,
                3 => VsockEventType::Disconnected { reason: DisconnectReason::Reset },
                4 => VsockEventType::Disconnected { reason: DisconnectReason::Shutdown },
                5 => VsockEventType::Received { length: len as usize },
                6 => VsockEventType::CreditUpdate,
                _ => VsockEventType::CreditRequest,
            };
            assert!(ev.event_type == want, "C18: wrong event type for the operation");
        }
        Err(e) => {
            if code > 7 {
                assert!(e == Error::SocketDeviceError(SocketError::UnknownOperation(code)), "C18: error for unknown operation");
            } else if code == 0 {
                assert!(e == Error::SocketDeviceError(SocketError::InvalidOperation), "C18: error for OP_INVALID");
            } else {
                assert!(code != 5 && len != 0, "C18: valid packet rejected");
                assert!(e == Error::SocketDeviceError(SocketError::UnexpectedDataInPacket), "C18: error for unexpected payload");
            }
        }
    }
}

/// K∎ (complete): the isolation predicate.
#[kani::proof]
fn c18_matches_connection() {
    let ci = any_info();
    let cid: u64 = kani::any();
    let ev = VsockEvent {
        source: any_addr(),
        destination: any_addr(),
        buffer_status: VsockBufferStatus { buffer_allocation: kani::any(), forward_count: kani::any() },
        event_type: VsockEventType::CreditUpdate,
    };
    let want = ev.source.cid == ci.dst.cid && ev.source.port == ci.dst.port && ev.destination.cid == cid && ev.destination.port == ci.src_port;
    assert!(ev.matches_connection(&ci, cid) == want, "C18: matches_connection is not (peer address, local port, our cid)");
}

// ---------------------------------------------------------------------------------------------
// D2: the counters are free-running.  Full-domain harnesses; on a tree with D2 they fail with an
// arithmetic-overflow check and give the concrete input.
// ---------------------------------------------------------------------------------------------
/// K∎ (complete): `done_forwarding` for every fwd_cnt and every length up to u32::MAX.
#[kani::proof]
fn c17_d2_done_forwarding_wrap() {
    let mut ci = any_info();
    let before = ci.fwd_cnt;
    let n: u32 = kani::any();
    ci.done_forwarding(n as usize);
    assert!(ci.fwd_cnt == before.wrapping_add(n), "C17: fwd_cnt is not a free-running 32-bit counter");
}

/// K∎ (complete): `peer_free` for every counter value: in-flight computed modulo 2^32, never negative.
#[kani::proof]
fn c17_d2_peer_free_wrap() {
    let ci = any_info();
    let f = ci.peer_free();
    assert!(f == spec_peer_free(ci.peer_buf_alloc, ci.tx_cnt, ci.peer_fwd_cnt), "C17: peer_free is not the VirtIO credit formula in Z/2^32");
}

/// K∎ on the region the current code handles (no wrap yet, peer did not shrink its buffer): the formula itself.
#[kani::proof]
fn c17_peer_free_nowrap() {
    let ci = any_info();
    kani::assume(ci.tx_cnt >= ci.peer_fwd_cnt && ci.peer_buf_alloc >= ci.tx_cnt - ci.peer_fwd_cnt);
    let f = ci.peer_free();
    assert!(f == spec_peer_free(ci.peer_buf_alloc, ci.tx_cnt, ci.peer_fwd_cnt), "C17: peer_free differs from the VirtIO credit formula");
}

// ---------------------------------------------------------------------------------------------
// K<= bounded scenarios on the real driver: a real `VirtIOSocket` over the recording transport and a
// HAL that captures the contents of every device-readable buffer at the moment it is shared (= what
// the device is given on the transmit queue).  Shapes are concrete (payload of PAY bytes, RX buffers of
// RXB bytes, queue size 8); the credit state of the connection is symbolic.
// ---------------------------------------------------------------------------------------------
const CAP_N: usize = 24;
const CAP_B: usize = 48;
const RXB: usize = 48;
const PAY: usize = 3;

pub struct Cap {
    pub n: usize,
    pub len: [usize; CAP_N],
    pub dir: [u8; CAP_N],
    pub bytes: [[u8; CAP_B]; CAP_N],
    pub ndma: usize,
    pub dma: [*mut u8; 8],
}
pub static mut CAP: Cap = Cap { n: 0, len: [0; CAP_N], dir: [0; CAP_N], bytes: [[0; CAP_B]; CAP_N], ndma: 0, dma: [core::ptr::null_mut(); 8] };

/// HAL with device addresses different from driver pointers; captures shared device-readable bytes.
pub struct VHal;
unsafe impl Hal for VHal {
    fn dma_alloc(pages: usize, _direction: BufferDirection, _access_platform: bool) -> (PhysAddr, NonNull<u8>) {
        assert!(pages > 0);
        let layout = alloc::alloc::Layout::from_size_align(pages * PAGE_SIZE, PAGE_SIZE).unwrap();
        let p = unsafe { alloc::alloc::alloc_zeroed(layout) };
        unsafe {
            assert!(CAP.ndma < 8, "verif: too many dma allocations");
            CAP.dma[CAP.ndma] = p;
            CAP.ndma += 1;
        }
        (p as u64 + BOUNCE, NonNull::new(p).unwrap())
    }
    unsafe fn dma_dealloc(_paddr: PhysAddr, vaddr: NonNull<u8>, pages: usize, _access_platform: bool) -> i32 {
        let layout = alloc::alloc::Layout::from_size_align(pages * PAGE_SIZE, PAGE_SIZE).unwrap();
        unsafe { alloc::alloc::dealloc(vaddr.as_ptr(), layout) };
        0
    }
    unsafe fn mmio_phys_to_virt(paddr: PhysAddr, _size: usize) -> NonNull<u8> {
        NonNull::new(paddr as *mut u8).unwrap()
    }
    unsafe fn share(buffer: NonNull<[u8]>, direction: BufferDirection, _access_platform: bool) -> PhysAddr {
        unsafe {
            assert!(CAP.n < CAP_N, "verif: capture log overflow");
            let i = CAP.n;
            CAP.len[i] = buffer.len();
            CAP.dir[i] = match direction { BufferDirection::DriverToDevice => 0, BufferDirection::DeviceToDriver => 1, BufferDirection::Both => 2 };
            if CAP.dir[i] == 0 {
                let l = if buffer.len() < CAP_B { buffer.len() } else { CAP_B };
                core::ptr::copy_nonoverlapping(buffer.as_ptr() as *const u8, CAP.bytes[i].as_mut_ptr(), l);
            }
            CAP.n += 1;
        }
        buffer.as_ptr() as *mut u8 as u64 + BOUNCE
    }
    unsafe fn unshare(_paddr: PhysAddr, _buffer: NonNull<[u8]>, _direction: BufferDirection, _access_platform: bool) {}
}

/// A driver object of which only the parts used by the transmit path exist: `transport`, `tx` (a real
/// `VirtQueue` of 8 over the capturing HAL) and `guest_cid`.  `rx` and `event` are never touched by
/// `send`/`connect`/... and are left uninitialised (building them with `VirtIOSocket::new` - 3 queues and
/// 8 posted receive buffers - exceeds CBMC's capacity here: no verdict after 25 min).
struct TxOnly(core::mem::MaybeUninit<VirtIOSocket<VHal, KTransport, RXB>>);
impl TxOnly {
    fn new() -> Self {
        log_reset();
        unsafe { CAP.n = 0; CAP.ndma = 0; }
        let mut t = KTransport::new(DeviceType::Socket);
        let tx = VirtQueue::<VHal, QUEUE_SIZE>::new(&mut t, TX_QUEUE_IDX, false, false, false).unwrap();
        let mut m = core::mem::MaybeUninit::<VirtIOSocket<VHal, KTransport, RXB>>::uninit();
        unsafe {
            let p = m.as_mut_ptr();
            core::ptr::addr_of_mut!((*p).transport).write(t);
            core::ptr::addr_of_mut!((*p).tx).write(tx);
            core::ptr::addr_of_mut!((*p).guest_cid).write(kani::any());
        }
        TxOnly(m)
    }
    fn sock(&mut self) -> &mut VirtIOSocket<VHal, KTransport, RXB> {
        unsafe { &mut *self.0.as_mut_ptr() }
    }
}

/// the model device completes the next transmit chain in advance: the used ring of the tx queue
/// (2nd dma region of the queue) gets entry {id: token 0, len 0}, idx = 1
fn dev_precomplete_tx() {
    unsafe {
        assert!(CAP.ndma == 2, "verif: unexpected dma layout");
        let u = CAP.dma[1];
        *(u.add(4) as *mut u32) = 0;
        *(u.add(8) as *mut u32) = 0;
        *(u.add(2) as *mut u16) = 1;
    }
}

/// capture `i` is a 44-byte device-readable buffer holding exactly header `want` (compared field by field
/// after parsing; the byte layout itself is covered by `c17_hdr_layout` / `c17_hdr_roundtrip`)
fn cap_is(i: usize, want: &VirtioVsockHdr) -> bool {
    if unsafe { CAP.len[i] != 44 || CAP.dir[i] != 0 } {
        return false;
    }
    let got = VirtioVsockHdr::read_from_bytes(unsafe { &CAP.bytes[i][..44] }).unwrap();
    got == *want
}

fn expect_hdr(ci: &ConnectionInfo, cid: u64, op: u16, len: u32) -> VirtioVsockHdr {
    VirtioVsockHdr {
        src_cid: U64::new(cid),
        dst_cid: U64::new(ci.dst.cid),
        src_port: U32::new(ci.src_port),
        dst_port: U32::new(ci.dst.port),
        len: U32::new(len),
        socket_type: U16::new(1),
        op: U16::new(op),
        flags: U32::new(0),
        buf_alloc: U32::new(ci.buf_alloc),
        fwd_cnt: U32::new(ci.fwd_cnt),
    }
}

fn same_but_tx_and_pending(a: &ConnectionInfo, b: &ConnectionInfo) -> bool {
    a.dst == b.dst && a.src_port == b.src_port && a.peer_buf_alloc == b.peer_buf_alloc && a.peer_fwd_cnt == b.peer_fwd_cnt
        && a.buf_alloc == b.buf_alloc && a.fwd_cnt == b.fwd_cnt
}

/// `send` of PAY bytes on the real driver with symbolic credit state.  `nowrap`: restrict to the region the
/// current code supports (counters have not wrapped, peer did not shrink its buffer below the bytes in flight).
fn send_scenario(nowrap: bool, path: Option<bool>) {
    let mut holder = TxOnly::new();
    let s = holder.sock();
    let n0 = unsafe { CAP.n };
    let mut ci = any_info();
    if nowrap {
        kani::assume(ci.tx_cnt >= ci.peer_fwd_cnt && ci.peer_buf_alloc >= ci.tx_cnt - ci.peer_fwd_cnt);
        kani::assume(ci.tx_cnt <= u32::MAX - PAY as u32);
    }
    let before = ci.clone();
    let free = spec_peer_free(ci.peer_buf_alloc, ci.tx_cnt, ci.peer_fwd_cnt);
    if let Some(enough) = path {
        kani::assume((PAY as u32 <= free) == enough);
    }
    let data: [u8; PAY] = kani::any();
    dev_precomplete_tx();
    let l0 = log_len();
    let r = s.send(&data, &mut ci);
    let n1 = unsafe { CAP.n };
    assert!(same_but_tx_and_pending(&ci, &before), "C17: send changed credit fields it does not own");
    if PAY as u32 <= free {
        // enough credit: exactly one packet [header, payload]
        assert!(r == Ok(()), "C17: send refused although the peer advertised enough space");
        assert!(n1 == n0 + 2, "C17: a data packet is header + payload");
        assert!(cap_is(n0, &expect_hdr(&before, s.guest_cid, 5, PAY as u32)), "C17: data packet header wrong (addressing / len / type / op / buf_alloc / fwd_cnt)");
        let p = unsafe { &CAP.bytes[n0 + 1] };
        assert!(unsafe { CAP.len[n0 + 1] } == PAY && p[0] == data[0] && p[1] == data[1] && p[2] == data[2], "C17: payload differs from the caller's bytes");
        assert!(ci.tx_cnt == before.tx_cnt.wrapping_add(PAY as u32), "C17: tx_cnt not advanced by the payload length (mod 2^32)");
        assert!(ci.has_pending_credit_request == before.has_pending_credit_request, "C17: pending flag changed by a successful send");
        assert!(log_len() == l0 + 1 && log_at(l0) == Ev::Notify(TX_QUEUE_IDX), "C05: device not notified of the packet");
    } else {
        // flow control: refused, at most one credit request
        assert!(r == Err(Error::SocketDeviceError(SocketError::InsufficientBufferSpaceInPeer)), "C17: send beyond the peer's advertised free space was not refused");
        assert!(ci.tx_cnt == before.tx_cnt, "C17: refused send counted as sent");
        assert!(ci.has_pending_credit_request, "C17: no credit request pending after a refusal");
        if before.has_pending_credit_request {
            assert!(n1 == n0, "C17: second credit request while one is pending");
        } else {
            assert!(n1 == n0 + 1, "C17: a refusal must issue exactly one credit request");
            assert!(cap_is(n0, &expect_hdr(&before, s.guest_cid, 7, 0)), "C17: credit request header wrong");
        }
    }
}

/// K<= bounded stand-in: queue size 8, payload 3 bytes, one send on a driver with a real transmit queue; credit
/// state symbolic within the no-wrap region, enough credit.
#[kani::proof]
#[kani::unwind(10)]
fn k17_send_ok_nowrap() { send_scenario(true, Some(true)); }

/// K<= as above, insufficient credit (refusal, single credit request).
#[kani::proof]
#[kani::unwind(10)]
fn k17_send_refused_nowrap() { send_scenario(true, Some(false)); }

/// K<= same scenario over the FULL credit state (all 2^32 values of every counter): fails on a tree with D2.
#[kani::proof]
#[kani::unwind(10)]
fn c17_d2_send_flow_anywrap() { send_scenario(false, None); }
