//! Kani harnesses over the real network drivers (C16).  Appended to the scratch copy of
//! src/device/net/dev.rs as a child module, so the private fields of `VirtIONet` (`inner`, `rx_buffers`) and
//! the items private to `crate::device::net` (header structs and their fields, `Features`, constants) are
//! visible.
//!
//! Naming: `c16_*` loop-free harnesses over full-domain symbolic inputs (complete proofs for the stated
//! function / type; they validate the stubs of units/net_pre.vrs and units/net.vrs on the real zerocopy /
//! bitflags types), `k16_*` bounded scenarios on the real drivers (queue size 2 or 4, one or two operations,
//! concrete buffer shapes - every bound is stated on the harness), `c16_net1_*` a scenario that FAILS on a
//! tree with defect NET-1 (counterexample source for the failing Verus obligation of `VirtIONet::receive`).
#![allow(dead_code, missing_docs, clippy::undocumented_unsafe_blocks)]
use super::super::{
    Features, Flags, GsoType, VirtioNetHdr, VirtioNetHdrLegacy, MIN_BUFFER_LEN, QUEUE_RECEIVE, QUEUE_TRANSMIT, SUPPORTED_FEATURES,
};
use super::*;
use crate::transport::DeviceType;
use crate::verif_support::*;
use crate::{BufferDirection, Hal, PhysAddr, PAGE_SIZE};
use core::mem::size_of;
use core::ptr::NonNull;
use zerocopy::IntoBytes;

// ---------------------------------------------------------------------------------------------
// K∎ complete, loop-free: the hand models of the Verus unit against the real types
// ---------------------------------------------------------------------------------------------

/// K∎ (complete): constants and the bitflags type `Features` as modelled in units/net_pre.vrs.
#[kani::proof]
#[kani::unwind(34)]
fn c16_consts() {
    assert!(MIN_BUFFER_LEN == 1526 && QUEUE_RECEIVE == 0 && QUEUE_TRANSMIT == 1, "C16: constants of the unit");
    assert!(Features::MAC.bits() == 0x20 && Features::MRG_RXBUF.bits() == 0x8000 && Features::STATUS.bits() == 0x1_0000, "C16: feature bits");
    assert!(Features::RING_INDIRECT_DESC.bits() == 0x1000_0000 && Features::RING_EVENT_IDX.bits() == 0x2000_0000, "C16: ring feature bits");
    assert!(Features::VERSION_1.bits() == 0x1_0000_0000 && Features::ACCESS_PLATFORM.bits() == 0x2_0000_0000, "C16: transport feature bits");
    assert!(SUPPORTED_FEATURES.bits() == 0x3_3001_0020, "C16: SUPPORTED_FEATURES");
    // `contains` is `self & o == o`; negotiation is `truncate(device) & supported`
    let x: u64 = kani::any();
    let neg = Features::from_bits_truncate(x) & SUPPORTED_FEATURES;
    assert!(neg.bits() == x & 0x3_3001_0020, "C16: negotiated = offered & supported");
    assert!(neg.contains(Features::VERSION_1) == (x & 0x1_0000_0000 != 0), "C16: contains(VERSION_1)");
    assert!(!neg.contains(Features::MRG_RXBUF), "C16: MRG_RXBUF can never be negotiated");
    assert!(neg.contains(Features::RING_INDIRECT_DESC) == (x & 0x1000_0000 != 0), "C16: contains(INDIRECT)");
    assert!(neg.contains(Features::RING_EVENT_IDX) == (x & 0x2000_0000 != 0), "C16: contains(EVENT_IDX)");
    assert!(neg.contains(Features::ACCESS_PLATFORM) == (x & 0x2_0000_0000 != 0), "C16: contains(ACCESS_PLATFORM)");
}

/// K∎ (complete: all field values): `as_bytes` of the two `#[repr(C)]` header types is the VirtIO 1.x 5.1.6
/// layout (u8 flags, u8 gso_type, le16 hdr_len, gso_size, csum_start, csum_offset [, num_buffers]); sizes 10 / 12.
/// Validates `legacy_hdr_bytes` / `hdr_bytes` / `axiom_hdr_sizes` of units/net.vrs.
#[kani::proof]
fn c16_hdr_layout() {
    assert!(size_of::<VirtioNetHdrLegacy>() == 10 && size_of::<VirtioNetHdr>() == 12, "C16: header sizes");
    let (f, g): (u8, u8) = (kani::any(), kani::any());
    let (a, b, c, d, n): (u16, u16, u16, u16, u16) = (kani::any(), kani::any(), kani::any(), kani::any(), kani::any());
    let l = VirtioNetHdrLegacy { flags: Flags(f), gso_type: GsoType(g), hdr_len: a, gso_size: b, csum_start: c, csum_offset: d };
    let lb = l.as_bytes();
    assert!(lb.len() == 10, "C16: legacy header is 10 bytes");
    assert!(lb[0] == f && lb[1] == g, "C16: legacy header: flags, gso_type");
    assert!(lb[2] == a as u8 && lb[3] == (a >> 8) as u8 && lb[4] == b as u8 && lb[5] == (b >> 8) as u8, "C16: legacy header: hdr_len, gso_size");
    assert!(lb[6] == c as u8 && lb[7] == (c >> 8) as u8 && lb[8] == d as u8 && lb[9] == (d >> 8) as u8, "C16: legacy header: csum_start, csum_offset");
    let h = VirtioNetHdr { flags: Flags(f), gso_type: GsoType(g), hdr_len: a, gso_size: b, csum_start: c, csum_offset: d, num_buffers: n };
    let hb = h.as_bytes();
    assert!(hb.len() == 12, "C16: header is 12 bytes");
    assert!(hb[0] == f && hb[1] == g, "C16: header: flags, gso_type");
    assert!(hb[2] == a as u8 && hb[3] == (a >> 8) as u8 && hb[4] == b as u8 && hb[5] == (b >> 8) as u8, "C16: header: hdr_len, gso_size");
    assert!(hb[6] == c as u8 && hb[7] == (c >> 8) as u8 && hb[8] == d as u8 && hb[9] == (d >> 8) as u8, "C16: header: csum_start, csum_offset");
    assert!(hb[10] == n as u8 && hb[11] == (n >> 8) as u8, "C16: header: num_buffers");
    // widening keeps the fields, num_buffers 0
    let w: VirtioNetHdr = (&l).into();
    assert!(w.flags == Flags(f) && w.gso_type == GsoType(g) && w.hdr_len == a && w.gso_size == b && w.csum_start == c
        && w.csum_offset == d && w.num_buffers == 0, "C16: From<&VirtioNetHdrLegacy>");
}

/// K∎ (complete): the default headers are all-zero bytes of size 10 / 12 on the real zerocopy types.
#[kani::proof]
fn c16_default_headers() {
    let l = VirtioNetHdrLegacy::default();
    let lb = l.as_bytes();
    assert!(lb.len() == 10, "C16: default legacy header is not 10 bytes");
    assert!(lb[0] == 0 && lb[1] == 0 && lb[2] == 0 && lb[3] == 0 && lb[4] == 0 && lb[5] == 0 && lb[6] == 0 && lb[7] == 0
        && lb[8] == 0 && lb[9] == 0, "C16: default legacy header is not all-zero");
    let h = VirtioNetHdr::default();
    let hb = h.as_bytes();
    assert!(hb.len() == 12, "C16: default header is not 12 bytes");
    assert!(hb[0] == 0 && hb[1] == 0 && hb[2] == 0 && hb[3] == 0 && hb[4] == 0 && hb[5] == 0 && hb[6] == 0 && hb[7] == 0
        && hb[8] == 0 && hb[9] == 0 && hb[10] == 0 && hb[11] == 0, "C16: default header is not all-zero");
}

/// K∎ (complete for the stated shape: `buf_len` 43 -> 5 words): an RxBuffer is `buf_len` rounded down to whole
/// 8-byte words, zeroed; `packet()` is `bytes[hdr .. hdr + packet_len]` for both header formats (packet_len 0..=4
/// symbolic); `as_bytes_mut` is the same memory.  Validates `words_bytes` / `RxBuffer::new` / `packet` of the unit.
#[kani::proof]
#[kani::unwind(8)]
fn c16_rxbuffer_shape() {
    assert!(size_of::<usize>() == 8, "C16: 64-bit target");
    let legacy: bool = kani::any();
    let hdr = if legacy { 10 } else { 12 };
    let mut b = RxBuffer::new(1, 43, legacy);
    assert!(b.as_bytes().len() == 40 && b.packet_len() == 0 && b.idx == 1, "C16: RxBuffer::new");
    assert!(b.packet().len() == 0, "C16: empty packet");
    let n: usize = kani::any();
    kani::assume(n <= 4);
    let (x, y): (u8, u8) = (kani::any(), kani::any());
    {
        let m = b.as_bytes_mut();
        assert!(m.len() == 40, "C16: as_bytes_mut length");
        m[hdr] = x;
        m[hdr + 3] = y;
    }
    b.set_packet_len(n);
    let p = b.packet();
    assert!(p.len() == n && b.packet_len() == n, "C16: packet() is packet_len bytes");
    if n >= 1 { assert!(p[0] == x, "C16: packet() does not start right after the header"); }
    if n >= 4 { assert!(p[3] == y, "C16: packet() content"); }
    assert!(b.as_bytes()[hdr] == x && b.as_bytes()[hdr + 3] == y && b.as_bytes()[0] == 0, "C16: as_bytes / as_bytes_mut are the same memory");
    let t = TxBuffer::from(&[x, y]);
    assert!(t.packet_len() == 2 && t.packet()[0] == x && t.packet()[1] == y, "C16: TxBuffer::from / packet");
}

// ---------------------------------------------------------------------------------------------
// K<= bounded scenarios on the real drivers: a HAL that captures every shared buffer (contents of the
// device-readable ones at the moment they are shared = what the device is given), a model device that
// completes a chain by writing the used ring.
// ---------------------------------------------------------------------------------------------
const CAP_N: usize = 12;
const CAP_B: usize = 16;

pub struct Cap {
    pub n: usize,
    pub len: [usize; CAP_N],
    pub dir: [u8; CAP_N],
    pub ptr: [*mut u8; CAP_N],
    pub bytes: [[u8; CAP_B]; CAP_N],
    pub ndma: usize,
    pub dma: [*mut u8; 8],
    /// C07 ledger (only when `ledger` is set): share k is still shared
    pub ledger: bool,
    pub live: [bool; CAP_N],
}
pub static mut CAP: Cap = Cap {
    n: 0, len: [0; CAP_N], dir: [0; CAP_N], ptr: [core::ptr::null_mut(); CAP_N], bytes: [[0; CAP_B]; CAP_N],
    ndma: 0, dma: [core::ptr::null_mut(); 8], ledger: false, live: [false; CAP_N],
};

/// HAL with device addresses different from driver pointers; captures shared buffers.
pub struct NHal;
unsafe impl Hal for NHal {
    fn dma_alloc(pages: usize, _direction: BufferDirection, _access_platform: bool) -> (PhysAddr, NonNull<u8>) {
        assert!(pages > 0);
        let layout = alloc::alloc::Layout::from_size_align(pages * PAGE_SIZE, PAGE_SIZE).unwrap();
        let p = unsafe { alloc::alloc::alloc_zeroed(layout) };
        unsafe {
            assert!(CAP.ndma < 8, "verif: too many dma allocations");
            CAP.dma[CAP.ndma] = p;
            CAP.ndma += 1;
        }
        (p as u64 + BOUNCE, NonNull::new(p).unwrap())
    }
    unsafe fn dma_dealloc(_paddr: PhysAddr, vaddr: NonNull<u8>, pages: usize, _access_platform: bool) -> i32 {
        let layout = alloc::alloc::Layout::from_size_align(pages * PAGE_SIZE, PAGE_SIZE).unwrap();
        unsafe { alloc::alloc::dealloc(vaddr.as_ptr(), layout) };
        0
    }
    unsafe fn mmio_phys_to_virt(paddr: PhysAddr, _size: usize) -> NonNull<u8> {
        NonNull::new(paddr as *mut u8).unwrap()
    }
    unsafe fn share(buffer: NonNull<[u8]>, direction: BufferDirection, _access_platform: bool) -> PhysAddr {
        unsafe {
            assert!(CAP.n < CAP_N, "verif: capture log overflow");
            let i = CAP.n;
            CAP.len[i] = buffer.len();
            CAP.ptr[i] = buffer.as_ptr() as *mut u8;
            CAP.dir[i] = match direction { BufferDirection::DriverToDevice => 0, BufferDirection::DeviceToDriver => 1, BufferDirection::Both => 2 };
            if CAP.dir[i] == 0 {
                let l = if buffer.len() < CAP_B { buffer.len() } else { CAP_B };
                core::ptr::copy_nonoverlapping(buffer.as_ptr() as *const u8, CAP.bytes[i].as_mut_ptr(), l);
            }
            CAP.live[i] = true;
            CAP.n += 1;
        }
        buffer.as_ptr() as *mut u8 as u64 + BOUNCE
    }
    unsafe fn unshare(paddr: PhysAddr, buffer: NonNull<[u8]>, _direction: BufferDirection, _access_platform: bool) {
        unsafe {
            if CAP.ledger {
                // hal.rs `# Safety` of unshare: the buffer must be one share returned `paddr` for and not unshared since
                let mut hit = false;
                let mut k = 0;
                while k < CAP_N {
                    if k < CAP.n && CAP.live[k] && !hit && CAP.ptr[k] as u64 + BOUNCE == paddr && CAP.ptr[k] == buffer.as_ptr() as *mut u8 && CAP.len[k] == buffer.len() {
                        CAP.live[k] = false;
                        hit = true;
                    }
                    k += 1;
                }
                assert!(hit, "C07: unshare of a buffer that is not currently shared (second unshare, or an address share never returned)");
            }
        }
    }
}

fn cap_reset() {
    log_reset();
    unsafe { CAP.n = 0; CAP.ndma = 0; CAP.ledger = false; CAP.live = [false; CAP_N]; }
}

/// feature word offered by the model device: the bits that matter to the driver are symbolic
fn any_features() -> u64 {
    let mut f = 0u64;
    if kani::any() { f |= 1 << 32; }   // VERSION_1
    if kani::any() { f |= 1 << 15; }   // MRG_RXBUF (offered, never negotiated)
    if kani::any() { f |= 1 << 5; }    // MAC
    f
}

/// The model device puts one element {id, len} into the (still empty) used ring of the queue whose
/// device-writable area is dma region `region` (modern layout, creation order: transmitq 0/1, receiveq 2/3).
fn dev_complete_first(region: usize, id: u32, len: u32) {
    unsafe {
        assert!(CAP.ndma == 4, "verif: unexpected dma layout");
        let u = CAP.dma[region];
        *(u.add(4) as *mut u32) = id;
        *(u.add(8) as *mut u32) = len;
        *(u.add(2) as *mut u16) = 1;
    }
}
const TX_USED: usize = 1;
const RX_USED: usize = 3;

/// K<= (queue size 2; offered feature bits VERSION_1 / MRG_RXBUF / MAC symbolic): the header format is the
/// 12-byte one exactly when VERSION_1 is offered (hence negotiated), and `fill_buffer_header` writes exactly that
/// many zero bytes at the front of a 16-byte buffer and nothing else; an 8-byte buffer is refused untouched.
#[kani::proof]
#[kani::unwind(34)]
fn k16_new_hdr_size() {
    cap_reset();
    let mut t = KTransport::new(DeviceType::Network);
    let f = any_features();
    t.device_features = f;
    let raw = VirtIONetRaw::<NHal, KTransport, 2>::new(t).unwrap();
    let v1 = f & (1 << 32) != 0;
    assert!(raw.legacy_header == !v1, "C16: header format not selected by VERSION_1");
    let hdr = if v1 { 12 } else { 10 };
    let orig: [u8; 16] = kani::any();
    let mut buf = orig;
    let r = raw.fill_buffer_header(&mut buf);
    assert!(r == Ok(hdr), "C16: fill_buffer_header returns the header size");
    assert!(buf[0] == 0 && buf[1] == 0 && buf[2] == 0 && buf[3] == 0 && buf[4] == 0 && buf[5] == 0 && buf[6] == 0 && buf[7] == 0
        && buf[8] == 0 && buf[9] == 0, "C16: header bytes not zeroed");
    if v1 { assert!(buf[10] == 0 && buf[11] == 0, "C16: 12-byte header not fully zeroed"); }
    else { assert!(buf[10] == orig[10] && buf[11] == orig[11], "C16: 10-byte header wrote past its end"); }
    assert!(buf[12] == orig[12] && buf[13] == orig[13] && buf[14] == orig[14] && buf[15] == orig[15], "C16: bytes after the header changed");
    let mut small: [u8; 8] = kani::any();
    let s0 = small;
    assert!(raw.fill_buffer_header(&mut small) == Err(Error::InvalidParam) && small == s0, "C16: short buffer must be refused untouched");
    core::mem::forget(raw);
}

/// `VirtIONetRaw::send` of `N` symbolic bytes: what the device is given
fn send_scenario<const N: usize>() {
    cap_reset();
    let mut t = KTransport::new(DeviceType::Network);
    let f = any_features();
    t.device_features = f;
    let mut raw = VirtIONetRaw::<NHal, KTransport, 4>::new(t).unwrap();
    let hdr = if f & (1 << 32) != 0 { 12 } else { 10 };
    let data: [u8; N] = kani::any();
    dev_complete_first(TX_USED, 0, 0);
    let n0 = unsafe { CAP.n };
    let l0 = log_len();
    assert!(raw.can_send(), "C16: can_send false on an empty transmit queue");
    let r = raw.send(&data);
    assert!(r == Ok(()), "C16: send failed although the device completed the request");
    let n1 = unsafe { CAP.n };
    // first part: the zeroed header of the negotiated size, device-readable
    assert!(n1 >= n0 + 1 && unsafe { CAP.len[n0] == hdr && CAP.dir[n0] == 0 }, "C16: first buffer of a transmitted chain is not the header");
    let h = unsafe { &CAP.bytes[n0] };
    assert!(h[0] == 0 && h[1] == 0 && h[2] == 0 && h[3] == 0 && h[4] == 0 && h[5] == 0 && h[6] == 0 && h[7] == 0 && h[8] == 0 && h[9] == 0
        && (hdr == 10 || (h[10] == 0 && h[11] == 0)), "C16: transmitted header is not zeroed");
    if N == 0 {
        assert!(n1 == n0 + 1, "C16: an empty frame must not add an empty buffer");
    } else {
        assert!(n1 == n0 + 2, "C16: a frame is header + payload");
        let p = unsafe { &CAP.bytes[n0 + 1] };
        assert!(unsafe { CAP.len[n0 + 1] == N && CAP.dir[n0 + 1] == 0 }, "C16: payload length differs from the caller's");
        assert!(p[0] == data[0] && p[N - 1] == data[N - 1], "C16: payload differs from the caller's bytes");
    }
    assert!(log_len() == l0 + 1 && log_at(l0) == Ev::Notify(QUEUE_TRANSMIT), "C05: device not notified on the transmit queue");
    core::mem::forget(raw);
}

/// K<= (queue size 4, one send, frame of 3 symbolic bytes, header format symbolic)
#[kani::proof]
#[kani::unwind(34)]
fn k16_send_frame() { send_scenario::<3>(); }

/// K<= (queue size 4, one send, empty frame, header format symbolic)
#[kani::proof]
#[kani::unwind(34)]
fn k16_send_empty() { send_scenario::<0>(); }

/// K<= (queue size 2, one 1526-byte receive buffer, header format symbolic, used length over ALL 2^32 values):
/// `receive_complete` returns (hdr_size, used_len - hdr_size), or IoError when used_len < hdr_size (no wrap).
#[kani::proof]
#[kani::unwind(34)]
fn k16_raw_receive_len() {
    cap_reset();
    let mut t = KTransport::new(DeviceType::Network);
    let f = any_features();
    t.device_features = f;
    let mut raw = VirtIONetRaw::<NHal, KTransport, 2>::new(t).unwrap();
    let hdr: usize = if f & (1 << 32) != 0 { 12 } else { 10 };
    let mut buf = [0u8; 1526];
    let mut small = [0u8; 1525];
    assert!(unsafe { raw.receive_begin(&mut small) } == Err(Error::InvalidParam), "C16: undersized receive buffer accepted");
    assert!(raw.poll_receive().is_none(), "C16: poll_receive on an empty used ring");
    let token = unsafe { raw.receive_begin(&mut buf) }.unwrap();
    assert!(token == 0 && unsafe { CAP.n == 1 && CAP.len[0] == 1526 && CAP.dir[0] == 1 }, "C16: receive buffer not posted whole, device-writable");
    let len: u32 = kani::any();
    dev_complete_first(RX_USED, 0, len);
    assert!(raw.poll_receive() == Some(0), "C16: poll_receive does not report the used token");
    let r = unsafe { raw.receive_complete(token, &mut buf) };
    if (len as usize) < hdr {
        assert!(r == Err(Error::IoError), "C16: used length shorter than the header must be an I/O error");
    } else {
        assert!(r == Ok((hdr, len as usize - hdr)), "C16: (header size, used length - header size)");
    }
    core::mem::forget(raw);
}

fn some_count<const N: usize>(b: &[Option<RxBuffer>; N]) -> usize {
    let mut c = 0;
    let mut i = 0;
    while i < N { if b[i].is_some() { c += 1; } i += 1; }
    c
}

/// offered feature word with only VERSION_1 symbolic (keeps the receive scenarios small)
fn any_version() -> u64 {
    if kani::any() { 1 << 32 } else { 0 }
}

/// K<= (queue size 2, buffers of 1528 bytes, header format symbolic, one frame of 3 symbolic bytes completed on
/// token 0): all buffers posted by `new`; `can_recv`/`receive` agree with the used ring; the received buffer is slot
/// 0 (same memory), its packet is exactly the bytes the device wrote after the header, packet_len = used length -
/// header size; the other slot is untouched: posted (1) + caller-held (1) == 2.
#[kani::proof]
#[kani::unwind(34)]
fn k16_rx_receive() {
    cap_reset();
    let mut t = KTransport::new(DeviceType::Network);
    let f = any_version();
    t.device_features = f;
    let mut net = VirtIONet::<NHal, KTransport, 2>::new(t, 1528).unwrap();
    let hdr: usize = if f & (1 << 32) != 0 { 12 } else { 10 };
    assert!(net.rx_buffers[0].is_some() && net.rx_buffers[1].is_some(), "C16: not every receive buffer is posted after new");
    assert!(unsafe { CAP.n == 2 && CAP.len[0] == 1528 && CAP.dir[0] == 1 && CAP.len[1] == 1528 && CAP.dir[1] == 1 }, "C16: receive buffers not posted whole, device-writable");
    assert!(!net.can_recv(), "C16: can_recv with an empty used ring");
    assert!(matches!(net.receive(), Err(Error::NotReady)), "C16: receive with nothing used must be NotReady");
    assert!(net.rx_buffers[0].is_some() && net.rx_buffers[1].is_some(), "C16: a NotReady receive changed the slots");
    // the device writes a 3-byte frame after the header of buffer 0 and reports hdr + 3 bytes
    let frame: [u8; 3] = kani::any();
    let p0 = unsafe { CAP.ptr[0] };
    unsafe { *p0.add(hdr) = frame[0]; *p0.add(hdr + 1) = frame[1]; *p0.add(hdr + 2) = frame[2]; }
    dev_complete_first(RX_USED, 0, (hdr + 3) as u32);
    assert!(net.can_recv(), "C16: can_recv false although a buffer was used");
    let b = net.receive().unwrap();
    assert!(b.idx == 0 && b.packet_len() == 3, "C16: packet length is not used length - header size");
    let p = b.packet();
    assert!(p.len() == 3 && p[0] == frame[0] && p[1] == frame[1] && p[2] == frame[2], "C16: received frame differs from what the device wrote");
    assert!(b.as_bytes().as_ptr() as *mut u8 == p0, "C16: received buffer is not the one posted under the token");
    assert!(net.rx_buffers[0].is_none() && net.rx_buffers[1].is_some(), "C16: slot bookkeeping after receive");
    core::mem::forget(b);
    core::mem::forget(net);
}

/// K<= (queue size 2, buffers of 1528 bytes, VERSION_1 negotiated (concrete), an empty frame completed on token 0,
/// then recycle): the buffer handed out is given back: `recycle_rx_buffer` succeeds, posts the same memory again,
/// whole, and refills the slot under its token: posted buffers return to the queue size.
#[kani::proof]
#[kani::unwind(34)]
fn k16_rx_recycle() {
    cap_reset();
    let mut t = KTransport::new(DeviceType::Network);
    let f: u64 = 1 << 32;
    t.device_features = f;
    let mut net = VirtIONet::<NHal, KTransport, 2>::new(t, 1528).unwrap();
    let hdr: u32 = if f & (1 << 32) != 0 { 12 } else { 10 };
    let p0 = unsafe { CAP.ptr[0] };
    dev_complete_first(RX_USED, 0, hdr);
    let b = net.receive().unwrap();
    assert!(b.idx == 0 && b.packet_len() == 0, "C16: empty frame: packet length 0");
    assert!(net.rx_buffers[0].is_none() && net.rx_buffers[1].is_some(), "C16: slot bookkeeping after receive");
    let n0 = unsafe { CAP.n };
    assert!(net.recycle_rx_buffer(b) == Ok(()), "C16: recycle failed although a slot is free");
    assert!(net.rx_buffers[0].is_some() && net.rx_buffers[1].is_some(), "C16: posted buffers do not return to the queue size after recycling");
    assert!(unsafe { CAP.n == n0 + 1 && CAP.ptr[n0] == p0 && CAP.len[n0] == 1528 && CAP.dir[n0] == 1 }, "C16: recycled buffer not posted again, whole");
    assert!(net.rx_buffers[0].as_ref().unwrap().idx == 0, "C16: recycled buffer recorded under a token different from its slot");
    core::mem::forget(net);
}

/// K<= (queue size 2, buffers of 1528 bytes, header format symbolic; the device completes token 0 with a used
/// length shorter than the header, all such lengths): the caller gets no buffer, so the buffer must still be held by
/// the driver.  FAILS on the current tree (NET-1): `receive` has already taken the buffer out of its slot and popped
/// the chain when `receive_complete` reports IoError, and drops it.
#[kani::proof]
#[kani::unwind(34)]
fn c16_net1_short_len_keeps_buffer() {
    cap_reset();
    let mut t = KTransport::new(DeviceType::Network);
    let f = any_features();
    t.device_features = f;
    let mut net = VirtIONet::<NHal, KTransport, 2>::new(t, 1528).unwrap();
    let hdr: u32 = if f & (1 << 32) != 0 { 12 } else { 10 };
    let len: u32 = kani::any();
    kani::assume(len < hdr);
    dev_complete_first(RX_USED, 0, len);
    let r = net.receive();
    assert!(matches!(r, Err(Error::IoError)), "C16: used length shorter than the header must be an I/O error");
    assert!(some_count(&net.rx_buffers) == 2, "C16: receive buffer lost: neither posted nor owned by the caller after a failed receive");
    core::mem::forget(net);
}


/// The model device appends a second element {id, len} to the used ring (index 2) of dma region `region`.
fn dev_complete_second(region: usize, id: u32, len: u32) {
    unsafe {
        let u = CAP.dma[region];
        *(u.add(4 + 8) as *mut u32) = id;
        *(u.add(8 + 8) as *mut u32) = len;
        *(u.add(2) as *mut u16) = 2;
    }
}

/// C07 on the real network driver (BOUNDED stand-in: queue size 2, 1528-byte buffers, VERSION_1 negotiated; the
/// device completes twice with symbolic ids 0..=1 (an id >= the queue size ends in Rust's bounds-check panic at rx_buffers[id], a clean panic) and symbolic used lengths, also shorter than the
/// header, also repeating the first id): whatever the two `receive` calls answer, the HAL ledger sees no second
/// unshare and no unshare of an address share never returned, and a buffer handed to the caller is one of the two
/// posted ones, its packet inside it.
#[kani::proof]
#[kani::unwind(34)]
fn k07_net_rx_misbehave() {
    cap_reset();
    let mut t = KTransport::new(DeviceType::Network);
    t.device_features = 1 << 32;
    let mut net = VirtIONet::<NHal, KTransport, 2>::new(t, 1528).unwrap();
    unsafe { CAP.ledger = true; }
    let (p0, p1) = unsafe { (CAP.ptr[0], CAP.ptr[1]) };
    let id1: u32 = kani::any();
    let len1: u32 = kani::any();
    kani::assume(id1 <= 1);
    dev_complete_first(RX_USED, id1, len1);
    let r1 = net.receive();
    if let Ok(b) = &r1 {
        let q = b.as_bytes().as_ptr() as *mut u8;
        assert!(q == p0 || q == p1, "C07: received buffer is not one of the posted ones");
        assert!(b.as_bytes().len() == 1528, "C07: received buffer length");
    }
    let id2: u32 = kani::any();
    let len2: u32 = kani::any();
    kani::assume(id2 <= 1);
    dev_complete_second(RX_USED, id2, len2);
    let r2 = net.receive();
    if let Ok(b) = &r2 {
        let q = b.as_bytes().as_ptr() as *mut u8;
        assert!(q == p0 || q == p1, "C07: received buffer is not one of the posted ones");
        if let Ok(b1) = &r1 {
            assert!(b1.as_bytes().as_ptr() != b.as_bytes().as_ptr(), "C07: the same buffer handed to the caller twice");
        }
    }
    kani::cover!(r1.is_err() && r2.is_err(), "both refused");
    kani::cover!(r1.is_ok() && r2.is_ok(), "both delivered");
    core::mem::forget(r1);
    core::mem::forget(r2);
    core::mem::forget(net);
}
