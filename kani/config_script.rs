//! Shared by the C13 scenario harnesses (included with `#[path]` as a private submodule of each harness
//! module): a scripted device whose configuration space and generation counter may change between ANY
//! two driver accesses, behind the real `Transport` trait.
#![allow(dead_code, missing_docs, clippy::undocumented_unsafe_blocks)]
use crate::transport::{DeviceStatus, DeviceType, InterruptStatus, Transport};
use crate::{Error, PhysAddr, Result};
use core::cell::Cell;
use zerocopy::{FromBytes, Immutable, IntoBytes};

/// number of scripted device accesses (generation or config reads).  BOUND of every scenario harness.
pub const STEPS: usize = 12;
/// size of the scripted configuration window in bytes
pub const CFG: usize = 8;

#[derive(Clone, Copy, PartialEq, Eq, Debug)]
pub enum Acc {
    None,
    Gen,
    Read(usize, usize),
}

/// `cfg[k]` / `gener[k]` is what the device exposes at the moment of the k-th access.
pub struct ScriptT {
    pub device_type: DeviceType,
    pub cfg: [[u8; CFG]; STEPS],
    pub gener: [u32; STEPS],
    pub t: Cell<usize>,
    pub acc: Cell<[Acc; STEPS]>,
    pub features: u64,
    pub status: Cell<u32>,
}

impl ScriptT {
    /// arbitrary device behaviour
    pub fn any(device_type: DeviceType) -> Self {
        ScriptT {
            device_type,
            cfg: kani::any(),
            gener: kani::any(),
            t: Cell::new(0),
            acc: Cell::new([Acc::None; STEPS]),
            features: kani::any(),
            status: Cell::new(0),
        }
    }
    /// arbitrary device behaviour, built without loops (`kani::any` on arrays loops over the elements), for
    /// harnesses that need a small unwinding bound
    pub fn any_unrolled(device_type: DeviceType) -> Self {
        fn w() -> [u8; CFG] { kani::any::<u64>().to_le_bytes() }
        fn g() -> u32 { kani::any() }
        ScriptT {
            device_type,
            cfg: [w(), w(), w(), w(), w(), w(), w(), w(), w(), w(), w(), w()],
            gener: [g(), g(), g(), g(), g(), g(), g(), g(), g(), g(), g(), g()],
            t: Cell::new(0),
            acc: Cell::new([Acc::None; STEPS]),
            features: kani::any(),
            status: Cell::new(0),
        }
    }
    /// VirtIO 1.x 2.5.1 / 4.1.4.3.1 / 4.2.2.1: the generation changes whenever the configuration changes
    /// (a counter that does not wrap within the STEPS accesses of a scenario).
    pub fn assume_honours_generation(&self) {
        kani::assume(self.gener[0] < u32::MAX - STEPS as u32);
        // straight-line (no loop, no memcmp) so that harnesses can use a small unwinding bound
        macro_rules! link {
            ($k:expr) => {
                if self.cfg_word($k + 1) != self.cfg_word($k) {
                    kani::assume(self.gener[$k + 1] == self.gener[$k] + 1);
                } else {
                    kani::assume(self.gener[$k + 1] == self.gener[$k] || self.gener[$k + 1] == self.gener[$k] + 1);
                }
            };
        }
        link!(0); link!(1); link!(2); link!(3); link!(4); link!(5);
        link!(6); link!(7); link!(8); link!(9); link!(10);
    }
    /// the whole CFG = 8 byte window at time k as one word
    pub fn cfg_word(&self, k: usize) -> u64 { u64::from_le_bytes(self.cfg[k]) }
    fn step(&self, a: Acc) -> usize {
        let k = self.t.get();
        // the script is STEPS long: scenarios that need more accesses are cut off (bounded stand-in)
        kani::assume(k < STEPS);
        let mut l = self.acc.get();
        l[k] = a;
        self.acc.set(l);
        self.t.set(k + 1);
        k
    }
    pub fn time(&self) -> usize { self.t.get() }
    pub fn acc_at(&self, k: usize) -> Acc { self.acc.get()[k] }
    pub fn u32_at(&self, k: usize, off: usize) -> u32 {
        u32::from_le_bytes([self.cfg[k][off], self.cfg[k][off + 1], self.cfg[k][off + 2], self.cfg[k][off + 3]])
    }
    pub fn u16_at(&self, k: usize, off: usize) -> u16 {
        u16::from_le_bytes([self.cfg[k][off], self.cfg[k][off + 1]])
    }
}

impl Transport for ScriptT {
    fn device_type(&self) -> DeviceType { self.device_type }
    fn read_device_features(&mut self) -> u64 { self.features }
    fn write_driver_features(&mut self, _f: u64) {}
    fn max_queue_size(&mut self, _q: u16) -> u32 { 256 }
    fn notify(&mut self, _q: u16) {}
    fn get_status(&self) -> DeviceStatus { DeviceStatus::from_bits_retain(self.status.get()) }
    fn set_status(&mut self, s: DeviceStatus) { self.status.set(s.bits()); }
    fn set_guest_page_size(&mut self, _s: u32) {}
    fn requires_legacy_layout(&self) -> bool { false }
    fn queue_set(&mut self, _q: u16, _size: u32, _d: PhysAddr, _a: PhysAddr, _u: PhysAddr) {}
    fn queue_unset(&mut self, _q: u16) {}
    fn queue_used(&mut self, _q: u16) -> bool { false }
    fn ack_interrupt(&mut self) -> InterruptStatus { InterruptStatus::empty() }
    fn read_config_generation(&self) -> u32 {
        let k = self.step(Acc::Gen);
        self.gener[k]
    }
    fn read_config_space<T: FromBytes + IntoBytes>(&self, offset: usize) -> Result<T> {
        let size = core::mem::size_of::<T>();
        let end = offset.checked_add(size).ok_or(Error::ConfigSpaceTooSmall)?;
        if end > CFG {
            return Err(Error::ConfigSpaceTooSmall);
        }
        let k = self.step(Acc::Read(offset, size));
        Ok(T::read_from_bytes(&self.cfg[k][offset..end]).unwrap())
    }
    fn write_config_space<T: IntoBytes + Immutable>(&mut self, _offset: usize, _value: T) -> Result<()> {
        Err(Error::Unsupported)
    }
}
