//! Kani harnesses over the real EDID parser (C20: "EDID modes equal what the device reported", "every 1024-byte EDID
//! blob").  Appended to the scratch copy of src/device/gpu/edid.rs as a child module.  Both harnesses are loop-free
//! over fully symbolic inputs: COMPLETE proofs.  Not covered: `standard_timings()` (collect + sort of the eight
//! entries).
#![allow(dead_code, missing_docs)]
extern crate alloc;
use super::*;

/// C20 K-complete: `preferred_resolution()` for ALL 1024-byte blobs and ALL sizes: without a base block (size < 128)
/// it is `IoError`; otherwise the active pixel counts of the first detailed timing descriptor at offset 0x36 (VESA
/// E-EDID 3.10.2: horizontal active = byte 2 | high nibble of byte 4 << 4, vertical active = byte 5 | high nibble of
/// byte 7 << 4); a descriptor with a zero count is `IoError`.
#[kani::proof]
fn c20_edid_preferred() {
    let data: [u8; 1024] = kani::any();
    let size: u32 = kani::any();
    let e = Edid { data, size };
    let r = e.preferred_resolution();
    let h = data[0x36 + 2] as u32 | ((data[0x36 + 4] as u32 & 0xf0) << 4);
    let v = data[0x36 + 5] as u32 | ((data[0x36 + 7] as u32 & 0xf0) << 4);
    if size < 128 || h == 0 || v == 0 {
        assert!(r == Err(Error::IoError), "C20: preferred resolution without a valid first detailed timing");
    } else {
        assert!(r == Ok((h, v)), "C20: preferred resolution differs from the blob's first detailed timing");
    }
}

/// C20 K-complete: `standard_timing(i)` for ALL blobs and ALL eight indices: entry i is the two bytes at 38 + 2 i
/// (VESA E-EDID 3.9): unused if 01 01; horizontal = (byte0 + 31) * 8; vertical from the aspect ratio in bits 7..6 of
/// byte 1 (16:10, 4:3, 5:4, 16:9).
#[kani::proof]
fn c20_edid_standard_timing() {
    let data: [u8; 1024] = kani::any();
    let size: u32 = kani::any();
    let i: usize = kani::any();
    kani::assume(i < 8);
    let e = Edid { data, size };
    let st = e.standard_timing(i);
    let (b0, b1) = (data[38 + 2 * i], data[38 + 2 * i + 1]);
    if b0 == 1 && b1 == 1 {
        assert!(st.is_none(), "C20: unused standard timing slot");
    } else {
        let h = (b0 as u32 + 31) * 8;
        let v = match (b1 >> 6) & 3 { 0 => h * 10 / 16, 1 => h * 3 / 4, 2 => h * 4 / 5, _ => h * 9 / 16 };
        let st = st.unwrap();
        assert!(st.h_pixels == h && st.v_pixels == v, "C20: standard timing differs from the blob");
    }
}
