//! Kani harnesses over the real `VirtQueue` (child module of `crate::queue`, so private
//! fields are visible).  Appended to the scratch copy of src/queue.rs.
#![allow(dead_code, missing_docs, clippy::undocumented_unsafe_blocks)]
use super::*;
use crate::transport::DeviceType;
use crate::verif_support::*;

fn vring_need_event(event_idx: u16, new_idx: u16, old_idx: u16) -> bool {
    new_idx.wrapping_sub(event_idx).wrapping_sub(1) < new_idx.wrapping_sub(old_idx)
}

fn mk_queue<const N: usize>(indirect: bool, event_idx: bool, legacy: bool) -> (VirtQueue<KHal, N>, KTransport) {
    log_reset();
    let mut t = KTransport::new(DeviceType::Block);
    t.legacy = legacy;
    let q = VirtQueue::<KHal, N>::new(&mut t, 0, indirect, event_idx, false).unwrap();
    (q, t)
}

/// C05 K∎: `should_notify` on the real code for all 2^16 x 2^16 (avail_idx, avail_event) pairs,
/// every previous-check index within 2^15 entries, both modes, any used.flags.  Loop-free after
/// construction => complete for this instantiation.
#[kani::proof]
#[kani::unwind(6)]
fn c05_should_notify_full_domain() {
    let event_idx: bool = kani::any();
    let (mut q, _t) = mk_queue::<4>(false, event_idx, false);
    let avail_idx: u16 = kani::any();
    let avail_event: u16 = kani::any();
    let used_flags: u16 = kani::any();
    let old_idx: u16 = kani::any();
    q.avail_idx = avail_idx;
    unsafe {
        (*q.used.as_ptr()).avail_event.store(avail_event, Ordering::Release);
        (*q.used.as_ptr()).flags.store(used_flags, Ordering::Release);
    }
    let r = q.should_notify();
    if event_idx {
        let batch = avail_idx.wrapping_sub(old_idx);
        if batch >= 1 && batch <= 0x8000 && vring_need_event(avail_event, avail_idx, old_idx) {
            assert!(r, "C05: lost wake-up: device requested an event index among the new entries but should_notify() is false");
        }
    } else {
        assert!(r == (used_flags & 1 == 0), "C05: should_notify() disagrees with the device's NO_NOTIFY flag");
    }
}

/// C05 K∎: `set_dev_notify` writes exactly the flag the device reads (no event-index) and
/// leaves it alone with event-index.
#[kani::proof]
#[kani::unwind(6)]
fn c05_set_dev_notify() {
    let event_idx: bool = kani::any();
    let (mut q, _t) = mk_queue::<4>(false, event_idx, false);
    let before: u16 = kani::any();
    unsafe { (*q.avail.as_ptr()).flags.store(before, Ordering::Release) };
    let enable: bool = kani::any();
    q.set_dev_notify(enable);
    let after = unsafe { (*q.avail.as_ptr()).flags.load(Ordering::Acquire) };
    if event_idx {
        assert!(after == before, "C05: avail.flags changed although event-index is negotiated");
    } else {
        assert!(after == if enable { 0 } else { 1 }, "C05: avail.flags does not match the requested setting");
    }
}
