//! Kani harnesses over the real `VirtQueue` (child module of `crate::queue`, so private
//! fields are visible).  Appended to the scratch copy of src/queue.rs.
#![allow(dead_code, missing_docs, clippy::undocumented_unsafe_blocks)]
use super::*;
use crate::transport::DeviceType;
use crate::verif_support::*;

fn vring_need_event(event_idx: u16, new_idx: u16, old_idx: u16) -> bool {
    new_idx.wrapping_sub(event_idx).wrapping_sub(1) < new_idx.wrapping_sub(old_idx)
}

fn mk_queue<const N: usize>(indirect: bool, event_idx: bool, legacy: bool) -> (VirtQueue<KHal, N>, KTransport) {
    log_reset();
    let mut t = KTransport::new(DeviceType::Block);
    t.legacy = legacy;
    let q = VirtQueue::<KHal, N>::new(&mut t, 0, indirect, event_idx, false).unwrap();
    (q, t)
}

/// C05 K∎: `should_notify` on the real code for all 2^16 x 2^16 (avail_idx, avail_event) pairs,
/// every previous-check index within 2^15 entries, both modes, any used.flags.  Loop-free after
/// construction => complete for this instantiation.
#[kani::proof]
#[kani::unwind(10)]
fn c05_should_notify_full_domain() {
    let event_idx: bool = kani::any();
    let (mut q, _t) = mk_queue::<4>(false, event_idx, false);
    let avail_idx: u16 = kani::any();
    let avail_event: u16 = kani::any();
    let used_flags: u16 = kani::any();
    let old_idx: u16 = kani::any();
    q.avail_idx = avail_idx;
    unsafe {
        (*q.used.as_ptr()).avail_event.store(avail_event, Ordering::Release);
        (*q.used.as_ptr()).flags.store(used_flags, Ordering::Release);
    }
    let r = q.should_notify();
    if event_idx {
        let batch = avail_idx.wrapping_sub(old_idx);
        if batch >= 1 && batch <= 0x8000 && vring_need_event(avail_event, avail_idx, old_idx) {
            assert!(r, "C05: lost wake-up: device requested an event index among the new entries but should_notify() is false");
        }
    } else {
        assert!(r == (used_flags & 1 == 0), "C05: should_notify() disagrees with the device's NO_NOTIFY flag");
    }
}

/// C05 K∎: `set_dev_notify` writes exactly the flag the device reads (no event-index) and
/// leaves it alone with event-index.
#[kani::proof]
#[kani::unwind(10)]
fn c05_set_dev_notify() {
    let event_idx: bool = kani::any();
    let (mut q, _t) = mk_queue::<4>(false, event_idx, false);
    let before: u16 = kani::any();
    unsafe { (*q.avail.as_ptr()).flags.store(before, Ordering::Release) };
    let enable: bool = kani::any();
    q.set_dev_notify(enable);
    let after = unsafe { (*q.avail.as_ptr()).flags.load(Ordering::Acquire) };
    if event_idx {
        assert!(after == before, "C05: avail.flags changed although event-index is negotiated");
    } else {
        assert!(after == if enable { 0 } else { 1 }, "C05: avail.flags does not match the requested setting");
    }
}

// ---------------------------------------------------------------------------
// K<= bounded scenarios on the real code (SIZE = 4), written straight-line: generic history
// interpreters with symbolic slice lengths / symbolic operation choice exhaust CBMC's memory (probed).
// ---------------------------------------------------------------------------
const HN: usize = 4;
const BUF: usize = 4;

unsafe fn dev_desc<const N: usize>(q: &VirtQueue<KHal, N>, i: usize) -> Descriptor {
    unsafe { (*(q.desc.as_ptr() as *const [Descriptor; N]))[i].clone() }
}
fn paddr_of(b: &[u8]) -> u64 { b.as_ptr() as u64 + BOUNCE }

fn set_start<const N: usize>(q: &mut VirtQueue<KHal, N>, start: u16) {
    q.avail_idx = start;
    q.last_used_idx = start;
    unsafe {
        (*q.avail.as_ptr()).idx.store(start, Ordering::Release);
        (*q.used.as_ptr()).idx.store(start, Ordering::Release);
    }
}
/// the device marks `token` used with the given length
fn dev_complete<const N: usize>(q: &mut VirtQueue<KHal, N>, token: u16, len: u32) {
    unsafe {
        let u = q.used.as_ptr();
        let uidx = (*u).idx.load(Ordering::Acquire);
        let s = (uidx & (N as u16 - 1)) as usize;
        (*u).ring[s].id = token as u32;
        (*u).ring[s].len = len;
        (*u).idx.store(uidx.wrapping_add(1), Ordering::Release);
    }
}
/// C04 oracle over the recorded HAL calls since `from`: every unshare carries the device address share
/// returned for that very buffer; returns the number of unshare calls
fn unshares_match(from: usize) -> usize {
    let mut unshared = 0;
    let mut e = from;
    while e < log_len() {
        if let Ev::Unshare(paddr, v, _l, _d) = log_at(e) {
            assert!(paddr == v as u64 + BOUNCE, "C04: unshare with a device address that share did not return for this buffer");
            unshared += 1;
        }
        e += 1;
    }
    unshared
}

/// one chain [in, out] through its whole life
fn life(indirect: bool, sym_start: bool) {
    let event_idx: bool = kani::any();
    let (mut q, _t) = mk_queue::<HN>(indirect, event_idx, false);
    let start: u16 = if sym_start { kani::any() } else { 0xffff };
    set_start(&mut q, start);
    let a = [1u8; BUF];
    let mut b = [0u8; BUF];
    let (pa, pb) = (paddr_of(&a), paddr_of(&b));
    let l0 = log_len();
    let token = unsafe { q.add(&[&a], &mut [&mut b]) }.unwrap();
    // C04: each buffer shared exactly once, true range, direction matching its role
    let mut shares = 0;
    let mut e = l0;
    while e < log_len() {
        if let Ev::Share(p, v, l, d) = log_at(e) {
            if p == pa { assert!(v == a.as_ptr() as usize && l == BUF && d == 0, "C04: input shared with wrong range/direction"); }
            else if p == pb { assert!(v == b.as_ptr() as usize && l == BUF && d == 1, "C04: output shared with wrong range/direction"); }
            else { assert!(indirect && d == 0 && l == 32, "C04: unexpected share"); }
            shares += 1;
        }
        e += 1;
    }
    assert!(shares == if indirect { 3 } else { 2 }, "C04: number of share calls");
    unsafe {
        // C01: the slot designated by the previous index holds the head; index advanced by one
        assert!((*q.avail.as_ptr()).ring[(start & (HN as u16 - 1)) as usize] == token, "C01: ring slot designated by the previous index not filled");
        assert!((*q.avail.as_ptr()).idx.load(Ordering::Acquire) == start.wrapping_add(1), "C01: available index not advanced by one");
        // C01: what the device reaches from the head
        let h = dev_desc(&q, token as usize);
        let (d0, d1) = if indirect {
            assert!(h.flags == DescFlags::INDIRECT && h.len == 32, "C01: indirect head malformed");
            let tp = q.indirect_lists[token as usize].expect("C01: indirect chain without table");
            assert!(h.addr == tp.as_ptr() as *const u8 as u64 + BOUNCE, "C04: table address is not its shared address");
            let t = tp.as_ptr() as *const Descriptor;
            ((*t).clone(), (*t.add(1)).clone())
        } else {
            assert!(h.flags == DescFlags::NEXT && (h.next as usize) < HN, "C01: first descriptor flags/next");
            (h.clone(), dev_desc(&q, h.next as usize))
        };
        assert!(d0.addr == pa && d0.len as usize == BUF && d0.flags == DescFlags::NEXT, "C01: first element is not the caller's input buffer");
        assert!(!indirect || d0.next == 1, "C01: indirect table next index");
        assert!(d1.addr == pb && d1.len as usize == BUF && d1.flags == DescFlags::WRITE, "C01: second element is not the caller's output buffer");
    }
    assert!(q.num_used as usize == if indirect { 1 } else { 2 }, "C03: descriptor count");
    // nothing ready yet
    assert!(!q.can_pop() && q.peek_used().is_none(), "C03: can_pop with empty used ring");
    let len: u32 = kani::any();
    dev_complete(&mut q, token, len);
    assert!(q.can_pop() && q.peek_used() == Some(token), "C03: peek_used");
    let l1 = log_len();
    let r = unsafe { q.pop_used(token, &[&a], &mut [&mut b]) };
    assert!(r == Ok(len), "C03: byte count the device recorded not reported");
    assert!(q.num_used == 0 && q.available_desc() == HN, "C03: descriptors not released");
    assert!(q.last_used_idx == start.wrapping_add(1), "C03: last_used_idx");
    assert!(unshares_match(l1) == if indirect { 3 } else { 2 }, "C04: number of unshare calls");
    if event_idx {
        let ue = unsafe { (*q.avail.as_ptr()).used_event.load(Ordering::Acquire) };
        assert!(ue == q.last_used_idx, "C05: used_event not re-armed");
    }
    assert!(!q.can_pop(), "C03: completion can be consumed twice");
}

#[kani::proof]
#[kani::unwind(9)]
fn k_life_direct() { life(false, false); }
#[kani::proof]
#[kani::unwind(9)]
fn k_life_indirect() { life(true, false); }
#[kani::proof]
#[kani::unwind(9)]
fn k_life_direct_anyidx() { life(false, true); }
#[kani::proof]
#[kani::unwind(9)]
fn k_life_indirect_anyidx() { life(true, true); }

/// two chains outstanding; the device completes them in either order; the driver polls with either token
fn two(indirect: bool) {
    let (mut q, _t) = mk_queue::<HN>(indirect, false, false);
    set_start(&mut q, 0xfffe);
    let a = [1u8; BUF];
    let c = [2u8; BUF];
    let mut b = [0u8; BUF];
    let ta = unsafe { q.add(&[&a, &c], &mut []) }.unwrap();
    let tb = unsafe { q.add(&[], &mut [&mut b]) }.unwrap();
    assert!(ta != tb, "C01: token of an outstanding chain handed out again");
    let used = q.num_used;
    let b_first: bool = kani::any();
    let (la, lb): (u32, u32) = (kani::any(), kani::any());
    if b_first { dev_complete(&mut q, tb, lb); dev_complete(&mut q, ta, la); } else { dev_complete(&mut q, ta, la); dev_complete(&mut q, tb, lb); }
    // polling with the token that is *not* next changes nothing
    let l0 = log_len();
    let last = q.last_used_idx;
    if b_first {
        let r = unsafe { q.pop_used(ta, &[&a, &c], &mut []) };
        assert!(r == Err(Error::WrongToken), "C03: completions must be consumed in used-ring order");
    } else {
        let r = unsafe { q.pop_used(tb, &[], &mut [&mut b]) };
        assert!(r == Err(Error::WrongToken), "C03: completions must be consumed in used-ring order");
    }
    assert!(q.num_used == used && q.last_used_idx == last && log_len() == l0, "C03: wrong-token poll changed state");
    // now in order
    if b_first {
        assert!(unsafe { q.pop_used(tb, &[], &mut [&mut b]) } == Ok(lb), "C03: length of first completion");
        assert!(unsafe { q.pop_used(ta, &[&a, &c], &mut []) } == Ok(la), "C03: length of second completion");
    } else {
        assert!(unsafe { q.pop_used(ta, &[&a, &c], &mut []) } == Ok(la), "C03: length of first completion");
        assert!(unsafe { q.pop_used(tb, &[], &mut [&mut b]) } == Ok(lb), "C03: length of second completion");
    }
    assert!(q.num_used == 0, "C03: descriptors not released");
    unshares_match(l0);
    // the freed descriptors are reusable
    let t3 = unsafe { q.add(&[&a], &mut [&mut b]) }.unwrap();
    assert!((t3 as usize) < HN);
    // C01/C02: ... and what the device reaches from the new head (over a free list that is no longer in its initial
    // order) describes exactly these two buffers
    if !indirect {
        unsafe {
            let h = dev_desc(&q, t3 as usize);
            assert!(h.flags == DescFlags::NEXT && (h.next as usize) < HN, "C01: first descriptor flags/next (recycled descriptors)");
            let d1 = dev_desc(&q, h.next as usize);
            assert!(h.addr == paddr_of(&a) && h.len as usize == BUF, "C01: first element is not the caller's input buffer (recycled descriptors)");
            assert!(d1.addr == paddr_of(&b) && d1.len as usize == BUF && d1.flags == DescFlags::WRITE, "C01: second element is not the caller's output buffer (recycled descriptors)");
        }
    }
}
#[kani::proof]
#[kani::unwind(9)]
fn k_two_direct() { two(false); }
#[kani::proof]
#[kani::unwind(9)]
fn k_two_indirect() { two(true); }

/// C03: refusals have no effect
#[kani::proof]
#[kani::unwind(9)]
fn k_refuse() {
    let indirect: bool = kani::any();
    let (mut q, _t) = mk_queue::<HN>(indirect, false, false);
    let a = [1u8; BUF];
    let l0 = log_len();
    assert!(unsafe { q.add(&[], &mut []) } == Err(Error::InvalidParam), "C03: empty submission must be InvalidParam");
    assert!(unsafe { q.add(&[&a, &a, &a, &a, &a], &mut []) } == Err(Error::QueueFull), "C03: more buffers than descriptors must be QueueFull");
    assert!(q.num_used == 0 && q.avail_idx == 0 && log_len() == l0, "C03/C04: refused submission had side effects");
    let t1 = unsafe { q.add(&[&a, &a, &a], &mut []) }.unwrap();
    let r = unsafe { q.add(&[&a, &a], &mut []) };
    if indirect { assert!(r.is_ok(), "C03: indirect submission needs one descriptor only"); }
    else { assert!(r == Err(Error::QueueFull), "C03: insufficient capacity must be QueueFull"); assert!(q.num_used == 3, "C03: refused submission changed the count"); }
    let _ = t1;
}

/// C07: the device scribbles over the descriptor table and available ring (which it must not write)
/// and reports arbitrary used elements; the driver's results must not depend on it.
fn scribble(indirect: bool) {
    let (mut q, _t) = mk_queue::<HN>(indirect, false, false);
    let a = [1u8; BUF];
    let mut b = [0u8; BUF];
    let token = unsafe { q.add(&[&a], &mut [&mut b]) }.unwrap();
    unsafe {
        let t = q.desc.as_ptr() as *mut [Descriptor; HN];
        let i: usize = kani::any();
        kani::assume(i < HN);
        (*t)[i].addr = kani::any();
        (*t)[i].len = kani::any();
        (*t)[i].next = kani::any();
        (*t)[i].flags = DescFlags::from_bits_retain(kani::any());
        (*q.avail.as_ptr()).idx.store(kani::any(), Ordering::Release);
        (*q.avail.as_ptr()).ring[0] = kani::any();
        if indirect {
            // the indirect table is device-readable memory as well
            let tp = q.indirect_lists[token as usize].unwrap().as_ptr() as *mut Descriptor;
            let j: usize = kani::any();
            kani::assume(j < 2);
            (*tp.add(j)).addr = kani::any();
            (*tp.add(j)).next = kani::any();
        }
        // arbitrary used ring
        let u = q.used.as_ptr();
        (*u).idx.store(kani::any(), Ordering::Release);
        (*u).ring[0].id = kani::any();
        (*u).ring[0].len = kani::any();
    }
    let l0 = log_len();
    let r = unsafe { q.pop_used(token, &[&a], &mut [&mut b]) };
    match r {
        Ok(_) => {
            assert!(q.num_used == 0, "C07: descriptor count depends on device-written memory");
            let n = unshares_match(l0);
            assert!(n == if indirect { 3 } else { 2 }, "C07: unshare count depends on device-written memory");
            // the queue is still usable and consistent
            let t2 = unsafe { q.add(&[&a], &mut [&mut b]) }.unwrap();
            assert!((t2 as usize) < HN && q.num_used as usize == if indirect { 1 } else { 2 }, "C07: state corrupted");
        }
        Err(e) => {
            assert!(e == Error::NotReady || e == Error::WrongToken, "C07: unexpected error");
            assert!(q.num_used as usize == if indirect { 1 } else { 2 } && log_len() == l0, "C07: failed poll changed state");
        }
    }
}
#[kani::proof]
#[kani::unwind(9)]
fn k_scribble_direct() { scribble(false); }
#[kani::proof]
#[kani::unwind(9)]
fn k_scribble_indirect() { scribble(true); }

/// K-complete (all u16 x u16): the hand model of the bitflags type `DescFlags` used in the Verus units
/// (contains = a & b == b, remove = a & !b, union = a | b, empty = 0, NEXT/WRITE/INDIRECT = 1/2/4)
#[kani::proof]
fn stub_descflags() {
    let a: u16 = kani::any();
    let b: u16 = kani::any();
    let fa = DescFlags::from_bits_retain(a);
    let fb = DescFlags::from_bits_retain(b);
    assert!(fa.contains(fb) == (a & b == b), "R6: DescFlags::contains model");
    let mut r = fa;
    r.remove(fb);
    assert!(r.bits() == a & !b, "R6: DescFlags::remove model");
    assert!((fa | fb).bits() == a | b, "R6: DescFlags `|` model (union)");
    assert!(DescFlags::empty().bits() == 0, "R6: DescFlags::empty model");
    assert!(DescFlags::NEXT.bits() == 1 && DescFlags::WRITE.bits() == 2 && DescFlags::INDIRECT.bits() == 4, "R6: flag constants");
}
