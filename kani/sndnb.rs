//! Kani harnesses for unit `sndnb` (C20 / C09: the non-blocking PCM transfer path of the sound driver).  Appended to the
//! scratch copy of src/device/sound.rs as a child module (`use super::*` sees the private `VirtIOSndPcmStatus`, the
//! `BTreeMap` / `Vec` / `Box` imports of the driver and zerocopy).
//!
//! What they validate: the contract STUBS of units/sndnb.vrs against the real library code -
//!   * `c20_sndnb_buf`: `vec_zeroed`, `vec_copy_range`, `u32_to_le_bytes`, `zc_new_box_zeroed`, `zc_as_mut_bytes` through a
//!     `Box`, on the very statements `pcm_xfer_nb` uses to build its two buffers;
//!   * `c20_sndnb_btreemap_buf` / `c20_sndnb_btreemap_rsp`: the `BMap` model (insert of a new key / contains_key / index /
//!     get_mut) against the real `alloc::collections::BTreeMap<u16, _>` with the two value types of the driver, plus the
//!     fact the SAFETY comment of `pcm_xfer_nb` rests on (C09): moving the `Vec` / `Box` into the map and looking it up
//!     never moves the heap buffer whose address was given to the device.
//! Bounds: maps of ONE entry under a concrete key, the probe key fully symbolic.  CBMC does not get through the B-tree
//! node code beyond that here: a second `insert` (even over the same key) and `remove` (even with concrete keys on a
//! one-entry map) run into the 400 s time-out / the memory cap; the stubs of `remove` and of `insert` over a present key
//! rest on the std documentation quoted in units/sndnb.vrs.  No scenario harness on `pcm_xfer_nb` / `pcm_xfer_ok` themselves: `VirtIOSound::new` builds four 32-entry
//! queues plus 32 owned event buffers, beyond CBMC here (see kani/cmd_sound.rs, kani/input_sound.rs); the defect SND-4
//! is reproduced by a plain unit test against the crate's fake device instead (docs/builders/sndnb.report.md).
#![allow(dead_code, missing_docs, clippy::undocumented_unsafe_blocks)]
extern crate alloc;
use super::*;

fn le32_at(b: &[u8], o: usize) -> u32 {
    b[o] as u32 + 256 * (b[o + 1] as u32) + 65536 * (b[o + 2] as u32) + 16777216 * (b[o + 3] as u32)
}

/// C20 K-complete for the stated shape (period of 4 bytes; ALL stream ids, ALL frame contents, ALL device-written status
/// images): the frame buffer built by the statements of `pcm_xfer_nb` is struct virtio_snd_pcm_xfer { le32 stream_id }
/// immediately followed by the frames (VirtIO 1.x 5.14.6.8); `v[a..b].copy_from_slice(src)` replaces exactly bytes a..b;
/// the status box is 8 zero bytes and what the device writes through `as_mut_bytes()` is the value read back
/// (le32 status at 0, le32 latency_bytes at 4).
#[kani::proof]
#[kani::unwind(10)]
fn c20_sndnb_buf() {
    let stream_id: u32 = kani::any();
    let frames_arr: [u8; 4] = kani::any();
    let frames: &[u8] = &frames_arr;
    // ---- the statements of pcm_xfer_nb ----
    const U32_SIZE: usize = size_of::<u32>();
    let period_size: usize = frames.len();
    let mut buf = vec![0; U32_SIZE + period_size];
    buf[..U32_SIZE].copy_from_slice(&stream_id.to_le_bytes());
    buf[U32_SIZE..U32_SIZE + period_size].copy_from_slice(frames);
    let mut rsp = VirtIOSndPcmStatus::new_box_zeroed().unwrap();
    // ----
    assert!(U32_SIZE == 4 && buf.len() == 8, "C20: the I/O message is not 4 + period bytes long");
    assert!(le32_at(&buf, 0) == stream_id, "C20: the I/O message does not start with le32 stream_id");
    assert!(buf[0] == stream_id as u8 && buf[3] == (stream_id >> 24) as u8, "C20: stream id byte order");
    assert!(buf[4] == frames[0] && buf[5] == frames[1] && buf[6] == frames[2] && buf[7] == frames[3], "C20: the frames do not follow the stream id in order");
    // vec_zeroed / vec_copy_range (general position)
    let z: Vec<u8> = vec![0; 5];
    assert!(z.len() == 5 && z[0] == 0 && z[4] == 0, "C20: vec![0; n] model");
    let init: [u8; 8] = kani::any();
    let src: [u8; 3] = kani::any();
    let mut v = init.to_vec();
    v[2..5].copy_from_slice(&src);
    assert!(v.len() == 8 && v[0] == init[0] && v[1] == init[1] && v[2] == src[0] && v[3] == src[1] && v[4] == src[2]
        && v[5] == init[5] && v[6] == init[6] && v[7] == init[7], "C20: v[a..b].copy_from_slice(src) model");
    // the status box
    assert!(size_of::<VirtIOSndPcmStatus>() == 8, "C20: sizeof(struct virtio_snd_pcm_status) is not 8");
    assert!(rsp.status == 0 && rsp.latency_bytes == 0, "C20: new_box_zeroed is not zero");
    let w: [u8; 8] = kani::any();
    {
        let bytes = rsp.as_mut_bytes();
        assert!(bytes.len() == 8, "C20: the status buffer lent to the device is not 8 bytes");
        bytes.copy_from_slice(&w);
    }
    assert!(rsp.status == le32_at(&w, 0) && rsp.latency_bytes == le32_at(&w, 4), "C20: status image (le32 status, le32 latency_bytes)");
    assert!(CommandCode::SOk as u32 == 0x8000, "C20: VIRTIO_SND_S_OK");
}

/// C20/C09 K-bounded (ONE entry under a concrete key, probe key q fully symbolic): the real `BTreeMap<u16, Vec<u8>>`
/// behaves as the `BMap` stubs of units/sndnb.vrs say for insert of a new key (returns None, afterwards exactly that key
/// is present), contains_key and index (`map[&k]`), and the stored Vec IS the buffer that was inserted: its heap address -
/// the address `pcm_xfer_nb` handed to the device just before - does not change when the Vec is moved into the map.
/// (A second insert and `remove` do not finish in CBMC here - 400 s time-outs even with concrete keys -: their stubs rest on
/// the std documentation quoted in the unit.)
#[kani::proof]
#[kani::unwind(6)]
fn c20_sndnb_btreemap_buf() {
    let q: u16 = kani::any();
    let a: u8 = kani::any();
    let mut m: BTreeMap<u16, Vec<u8>> = BTreeMap::new();
    assert!(!m.contains_key(&q), "C20: BTreeMap::new() is not empty");
    let v1 = vec![a; 2];
    let p1 = v1.as_ptr();
    let r = m.insert(5, v1);
    assert!(r.is_none(), "C20: insert of a new key returned a value");
    assert!(m.contains_key(&q) == (q == 5), "C20: contains_key after one insert");
    assert!(m[&5].len() == 2 && m[&5][0] == a && m[&5][1] == a, "C20: index after insert");
    assert!(m[&5].as_ptr() == p1, "C09: the stored Vec is not the buffer that was inserted (heap buffer moved)");
    core::mem::forget(m);
}

/// C20/C09 K-bounded (ONE entry under a concrete key, probe key q fully symbolic, ALL status values): the real
/// `BTreeMap<u16, Box<VirtIOSndPcmStatus>>`: `get_mut` answers Some iff the key is present; the reference leads to the very
/// box that was inserted (same heap address: the device-writable buffer posted by `pcm_xfer_nb`); a write through
/// `as_mut_bytes()` of that reference (what the device does) is the value found under the key afterwards.
#[kani::proof]
#[kani::unwind(6)]
fn c20_sndnb_btreemap_rsp() {
    let q: u16 = kani::any();
    let (s1, w): (u32, u32) = (kani::any(), kani::any());
    let mut m: BTreeMap<u16, Box<VirtIOSndPcmStatus>> = BTreeMap::new();
    let mut b1 = VirtIOSndPcmStatus::new_box_zeroed().unwrap();
    b1.status = s1;
    let p1: *const VirtIOSndPcmStatus = &*b1;
    assert!(m.insert(5, b1).is_none(), "C20: insert of a new key returned a value");
    assert!(m.contains_key(&q) == (q == 5), "C20: contains_key after one insert");
    match m.get_mut(&q) {
        Some(r) => {
            assert!(q == 5, "C20: get_mut found an absent key");
            let pr: *const VirtIOSndPcmStatus = &**r;
            assert!(pr == p1, "C09: get_mut does not lead to the box that was inserted");
            assert!(r.status == s1, "C20: get_mut value");
            let bytes = r.as_mut_bytes();
            assert!(bytes.len() == 8, "C20: status buffer length");
            let wb = w.to_le_bytes();
            bytes[0] = wb[0]; bytes[1] = wb[1]; bytes[2] = wb[2]; bytes[3] = wb[3];
        }
        None => assert!(q != 5, "C20: get_mut missed a present key"),
    }
    assert!(m[&5].status == (if q == 5 { w } else { s1 }), "C20: write through get_mut is not the value under the key");
    let p1b: *const VirtIOSndPcmStatus = &*m[&5];
    assert!(p1b == p1, "C09: the stored box moved");
    core::mem::forget(m);
}
