//! C13 Kani harnesses on the real x86-64 pKVM `HypPciTransport` configuration access (child module of
//! `crate::transport::x86_64`, appended to the scratch copy of src/transport/x86_64.rs).  The IO hypercalls
//! (inline `vmcall`) are replaced by recording stubs with `#[kani::stub]`; everything above them is real.
#![allow(dead_code, missing_docs, clippy::undocumented_unsafe_blocks)]
use super::*;

static mut IO_N: usize = 0;
static mut IO_ADDR: u64 = 0;
static mut IO_SIZE: usize = 0;
static mut IO_DATA: u64 = 0;

fn io_read_stub(address: u64, size: usize) -> u64 {
    unsafe {
        IO_N += 1;
        IO_ADDR = address;
        IO_SIZE = size;
        IO_DATA
    }
}

const COMMON: u64 = 0x1000;
const CONFIG: u64 = 0x2000;

fn mk(window: Option<usize>) -> HypPciTransport {
    HypPciTransport {
        device_type: DeviceType::Block,
        device_function: DeviceFunction { bus: 0, device: 0, function: 0 },
        common_cfg: HypIoRegion { paddr: COMMON, size: size_of::<CommonCfg>() },
        notify_region: HypIoRegion { paddr: 0x3000, size: 0 },
        notify_off_multiplier: 0,
        isr_status: HypIoRegion { paddr: 0x4000, size: 1 },
        config_space: window.map(|size| HypIoRegion { paddr: CONFIG, size }),
    }
}

/// C13 WITNESS of suspected defect D11 (expected to FAIL on the unfixed tree): `read_config_generation`
/// must be ONE 1-byte IO read of `config_generation` (offset 21 of virtio_pci_common_cfg).  The real code
/// (`configread!(self.common_cfg, config_generation)` with the type inferred from the `u32` return type) issues a
/// 4-byte read at offset 21 and returns its 32 bits (generation | queue_select << 8 | queue_size << 24).
#[kani::proof]
#[kani::stub(hypercalls::hyp_io_read, io_read_stub)]
fn c13_x86_generation_width() {
    unsafe { IO_DATA = kani::any() };
    let t = mk(None);
    let g = t.read_config_generation();
    unsafe {
        assert!(IO_N == 1 && IO_ADDR == COMMON + 21, "C13: generation read is not one access at common_cfg + 21");
        assert!(IO_SIZE == 1, "C13: generation register (u8) read with a wider access");
        assert!(g == (IO_DATA & 0xff) as u32, "C13: read_config_generation returns more than the 8-bit generation");
    }
    core::mem::forget(t);
}

/// C13 K (loop-free, complete: any window size or none, any offset whose end does not overflow, T = u32):
/// Ok iff wholly inside the window, then exactly one IO read of 4 bytes at CONFIG + offset; otherwise
/// TooSmall / Missing and no hypercall.
#[kani::proof]
#[kani::stub(hypercalls::hyp_io_read, io_read_stub)]
fn c13_x86_read_u32() {
    unsafe { IO_DATA = kani::any() };
    let present: bool = kani::any();
    let size: usize = kani::any();
    kani::assume(size <= 0x1000);
    let offset: usize = kani::any();
    kani::assume(offset <= usize::MAX - 4 && offset % 4 == 0);
    let t = mk(if present { Some(size) } else { None });
    let r = t.read_config_space::<u32>(offset);
    unsafe {
        if !present {
            assert!(matches!(r, Err(Error::ConfigSpaceMissing)) && IO_N == 0, "C13: no window: must fail with ConfigSpaceMissing without access");
        } else if offset + 4 <= size {
            assert!(IO_N == 1 && IO_ADDR == CONFIG + offset as u64 && IO_SIZE == 4, "C13: not exactly one 4-byte access at the offset");
            assert!(r.unwrap() == IO_DATA as u32, "C13: value differs from the device bytes");
        } else {
            assert!(matches!(r, Err(Error::ConfigSpaceTooSmall)) && IO_N == 0, "C13: outside the window: must fail with ConfigSpaceTooSmall without access");
        }
    }
    core::mem::forget(t);
}

/// C13 / D6 WITNESS (expected to FAIL on the unfixed tree): offset = usize::MAX - 3.
#[kani::proof]
#[kani::stub(hypercalls::hyp_io_read, io_read_stub)]
fn c13_x86_overflow_witness() {
    let t = mk(Some(8));
    let r = t.read_config_space::<u32>(usize::MAX - 3);
    assert!(matches!(r, Err(Error::ConfigSpaceTooSmall)), "C13: access beyond the window must fail with ConfigSpaceTooSmall");
    core::mem::forget(t);
}
