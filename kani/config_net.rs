//! C13 Kani harnesses on the real `VirtIONetRaw::new` MAC read and the net `Config` layout
//! (child module of `crate::device::net`, appended to the scratch copy of src/device/net/mod.rs).
#![allow(dead_code, missing_docs, clippy::undocumented_unsafe_blocks)]
use super::*;
use crate::config::read_config;
use crate::transport::DeviceType;
use crate::verif_support::KHal;

#[path = "/verif/kani/config_script.rs"]
mod script;
use script::*;

/// C13 K (loop-free, complete): offsets / widths of mac, status; `size_of::<[u8; 6]>() == 6` (axiom
/// `axiom_size_of_mac` of the Verus unit); the accesses `read_config!` makes.
#[kani::proof]
#[kani::unwind(14)]
fn c13_offsets_net() {
    assert!(core::mem::offset_of!(Config, mac) == 0, "C13: offset_of!(net Config, mac) != 0");
    assert!(core::mem::offset_of!(Config, status) == 6, "C13: offset_of!(net Config, status) != 6");
    assert!(size_of::<EthernetAddress>() == 6 && align_of::<EthernetAddress>() == 1, "C13: size_of::<[u8; 6]>() != 6");
    assert!(size_of::<Status>() == 2 && align_of::<Status>() == 2, "C13: net Status is not a 2-byte register");
    let t = ScriptT::any(DeviceType::Network);
    let mac: EthernetAddress = read_config!(t, Config, mac).unwrap();
    let _st: Status = read_config!(t, Config, status).unwrap();
    assert!(t.time() == 2 && t.acc_at(0) == Acc::Read(0, 6) && t.acc_at(1) == Acc::Read(6, 2), "C13: read_config! accesses differ from (0,6),(6,2)");
    let mut i = 0;
    while i < 6 {
        assert!(mac[i] == t.cfg[0][i], "C13: read_config! value differs from the device bytes");
        i += 1;
    }
}

/// C13 K<= (BOUND: STEPS = 12 scripted accesses; two 4-entry queues built by the real constructor; unwind 40 = the bitflags table of from_bits_truncate): the MAC
/// stored by the real `VirtIONetRaw::new` is the MAC of ONE configuration.
#[kani::proof]
#[kani::unwind(40)]
fn c13_net_mac_untorn() {
    let t = ScriptT::any(DeviceType::Network);
    t.assume_honours_generation();
    let cfg = t.cfg;
    let net = dev_raw::VirtIONetRaw::<KHal, ScriptT, 4>::new(t).unwrap();
    let mac = net.mac_address();
    let mut found = false;
    // Gen, Read mac, Gen per iteration, then the status read: the accepted iteration starts at n - 4
    let mut k = 0;
    while k < STEPS {
        if cfg[k][0] == mac[0] && cfg[k][1] == mac[1] && cfg[k][2] == mac[2] && cfg[k][3] == mac[3] && cfg[k][4] == mac[4] && cfg[k][5] == mac[5] {
            found = true;
        }
        k += 1;
    }
    assert!(found, "C13: MAC address is not the MAC of any single configuration the device exposed");
    core::mem::forget(net);
}
