//! Kani harnesses for C06 (and the DMA part of C09) on the real `VirtQueue::new`, layout helpers and `Dma`.
#![allow(dead_code, missing_docs, clippy::undocumented_unsafe_blocks)]
use super::*;
use crate::transport::DeviceType;
use crate::verif_support::*;

/// K-complete: the element sizes the Verus unit `queuenew` substitutes for `size_of`
#[kani::proof]
fn c06_sizes() {
    assert!(size_of::<Descriptor>() == 16 && core::mem::align_of::<Descriptor>() == 16, "C06: Descriptor is 16 bytes, 16-aligned");
    assert!(size_of::<UsedElem>() == 8, "C06: UsedElem is 8 bytes");
    assert!(size_of::<u16>() == 2);
    assert!(size_of::<AvailRing<4>>() == 6 + 2 * 4 && core::mem::align_of::<AvailRing<4>>() == 2, "C06: AvailRing layout");
    assert!(size_of::<UsedRing<4>>() == 8 + 8 * 4 && core::mem::align_of::<UsedRing<4>>() == 4, "C06: UsedRing layout (6+8n rounded to 4)");
}

/// K-complete (all 2^16 values): `u16::is_power_of_two` is the 16-way disjunction used in the contracts
#[kani::proof]
fn c06_pow2() {
    let x: u16 = kani::any();
    let spec = x == 1 || x == 2 || x == 4 || x == 8 || x == 16 || x == 32 || x == 64 || x == 128 || x == 256
        || x == 512 || x == 1024 || x == 2048 || x == 4096 || x == 8192 || x == 16384 || x == 32768;
    assert!(x.is_power_of_two() == spec, "C06: is_power_of_two stub contract");
}

/// K-complete (all usize below 2^63): `usize::div_ceil(4096)` and `align_up`/`pages` against their contracts
#[kani::proof]
fn c06_div_ceil() {
    let a: usize = kani::any();
    kani::assume(a <= usize::MAX - 4096);
    assert!(a.div_ceil(PAGE_SIZE) == (a + 4095) / 4096, "C06: div_ceil stub contract");
    let p = crate::pages(a);
    assert!(p * PAGE_SIZE >= a && (a == 0 || (p - 1) * PAGE_SIZE < a), "C06: pages() is the least page count covering the size");
    let r = crate::align_up(a);
    assert!(r % PAGE_SIZE == 0 && r > a && r <= a + PAGE_SIZE, "C06: align_up");
}

/// K-complete for the 16 legal sizes: part sizes and legacy offsets computed by the real functions
#[kani::proof]
fn c06_part_sizes() {
    let k: u8 = kani::any();
    kani::assume(k < 16);
    let n: u16 = 1 << k;
    let (d, a, u) = queue_part_sizes(n);
    let n = n as usize;
    assert!(d == 16 * n && a == 6 + 2 * n && u == 6 + 8 * n, "C06: ring part sizes");
    let used_off = crate::align_up(d + a);
    assert!(used_off % 4096 == 0 && used_off >= d + a && used_off - (d + a) < 4096, "C06: legacy used ring on the next page boundary");
}

/// K<= (SIZE=4, both layouts, any refusal, any failing allocation): the real `VirtQueue::new` and drop
#[kani::proof]
#[kani::unwind(10)]
fn c06_new_real() {
    log_reset();
    let mut t = KTransport::new(DeviceType::Block);
    t.legacy = kani::any();
    t.queue_used = kani::any();
    t.max_queue_size = kani::any();
    let fail_at: usize = kani::any();
    kani::assume(fail_at <= 3);
    unsafe { LOG.fail_alloc_at = fail_at; }
    let idx: u16 = kani::any();
    let r = VirtQueue::<KHal, 4>::new(&mut t, idx, kani::any(), kani::any(), false);
    // count events
    let mut allocs = 0;
    let mut sets = 0;
    let mut i = 0;
    let mut set = (0u64, 0u64, 0u64);
    let mut a0 = (0u64, 0usize, 0usize, 0u8);
    let mut a1 = (0u64, 0usize, 0usize, 0u8);
    while i < log_len() {
        match log_at(i) {
            Ev::Alloc(p, v, n, d) => { if allocs == 0 { a0 = (p, v, n, d); } else { a1 = (p, v, n, d); } allocs += 1; }
            Ev::QueueSet(q, n, d, a, u) => {
                assert!(q == idx && n == 4, "C06: queue registered with wrong index/size");
                assert!(allocs == if t.legacy { 1 } else { 2 }, "C06: queue registered before its memory was allocated");
                set = (d, a, u);
                sets += 1;
            }
            _ => {}
        }
        i += 1;
    }
    match r {
        Err(e) => {
            assert!(sets == 0, "C06: refused creation registered a queue");
            if t.queue_used { assert!(e == Error::AlreadyUsed && allocs == 0, "C06: queue in use must be refused without allocating"); }
            else if t.max_queue_size < 4 { assert!(e == Error::InvalidParam && allocs == 0, "C06: too small queue must be refused without allocating"); }
            else { assert!(e == Error::DmaError, "C09: failed allocation must be reported as DmaError"); }
            assert!(unsafe { LOG.live_allocs } == 0, "C09: failed construction leaked a DMA region");
        }
        Ok(q) => {
            assert!(!t.queue_used && t.max_queue_size >= 4, "C06: creation must be refused");
            assert!(sets == 1, "C06: queue registered exactly once");
            let (d, a, u) = set;
            assert!(d % 16 == 0 && a % 2 == 0 && u % 4 == 0, "C06: area alignment");
            assert!(a == d + 64, "C06: driver area follows the descriptor table");
            if t.legacy {
                assert!(allocs == 1 && a0.3 == 2 && d == a0.0 && d % 4096 == 0, "C06: legacy layout is one Both region");
                assert!(u == d + 4096 && u + 38 <= a0.0 + (a0.2 * 4096) as u64, "C06: legacy used ring on next page, inside the region");
            } else {
                assert!(allocs == 2 && a0.3 == 0 && a1.3 == 1, "C06: modern layout directions");
                assert!(d == a0.0 && a + 14 <= a0.0 + (a0.2 * 4096) as u64, "C06: descriptor/driver area inside its region");
                assert!(u == a1.0 && u + 38 <= a1.0 + (a1.2 * 4096) as u64, "C06: device area inside its region");
            }
            // rings are zero at registration time
            unsafe {
                assert!((*q.avail.as_ptr()).idx.load(Ordering::Acquire) == 0 && (*q.avail.as_ptr()).flags.load(Ordering::Acquire) == 0, "C06: available ring not zero");
                assert!((*q.avail.as_ptr()).ring[0] == 0 && (*q.avail.as_ptr()).ring[3] == 0, "C06: available ring not zero");
                assert!((*q.used.as_ptr()).idx.load(Ordering::Acquire) == 0, "C06: used ring not zero");
            }
            let before = log_len();
            drop(q);
            // every region returned once with its own triple
            let mut deallocs = 0;
            let mut j = before;
            while j < log_len() {
                if let Ev::Dealloc(p, v, n) = log_at(j) {
                    assert!((p, v, n) == (a0.0, a0.1, a0.2) || (p, v, n) == (a1.0, a1.1, a1.2), "C06: dealloc with values that were not returned by dma_alloc");
                    deallocs += 1;
                }
                j += 1;
            }
            assert!(deallocs == allocs && unsafe { LOG.live_allocs } == 0, "C06: each DMA region must be returned exactly once");
        }
    }
}
