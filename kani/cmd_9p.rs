//! Kani harnesses over the real 9P driver (C20).  Appended to the scratch copy of src/device/virtio_9p.rs as a child
//! module.
//! * `c20_9p_le32`: COMPLETE (all 2^32 inputs): `u32::from_le_bytes` is the formula of units/cmd_9p.vrs `le32`.
//! * `c20_9p_request`, `c20_9p_params`: BOUNDED stand-ins (bounds at each harness): the real driver on the real
//!   queue against a reference device.
#![allow(dead_code, missing_docs, clippy::undocumented_unsafe_blocks, static_mut_refs)]
extern crate alloc;
use super::*;
use crate::transport::DeviceType;
use crate::verif_support::{log_at, log_len, Ev, KTransport};
#[path = "/verif/kani/cmd_dev.rs"]
mod dev;
use dev::*;

fn mk_9p() -> VirtIO9p<DHal, KTransport> {
    dev_reset();
    let mut t = KTransport::new(DeviceType::_9P);
    t.device_features = 1 << 32;
    // mount tag "a" (length-prefixed)
    t.config[0] = 1;
    t.config[1] = 0;
    t.config[2] = b'a';
    VirtIO9p::<DHal, KTransport>::new(t).unwrap()
}

/// C20 K-complete: the stub `u32_from_le_bytes4` of units/cmd_9p.vrs: `u32::from_le_bytes([a,b,c,d])` is
/// a | b<<8 | c<<16 | d<<24 for ALL bytes.
#[kani::proof]
fn c20_9p_le32() {
    let (a, b, c, d): (u8, u8, u8, u8) = (kani::any(), kani::any(), kani::any(), kani::any());
    assert!(u32::from_le_bytes([a, b, c, d]) == (a as u32) | ((b as u32) << 8) | ((c as u32) << 16) | ((d as u32) << 24),
        "C20: u32::from_le_bytes is not the little-endian value");
    assert!(QUEUE == 0 && QUEUE_SIZE == 16 && P9_HEADER_SIZE == 7, "C20: 9p constants");
}

/// C20 K-bounded: `request(req, resp)`: one chain [req (device-readable), resp (device-writable)] on queue 0; the reply
/// is accepted iff the le32 size field at its offset 0 equals the used length (ALL 2^32 used lengths, ALL reply
/// bytes), and then the used length is returned; otherwise IoError.  Bounds: QUEUE_SIZE = 16, fresh queue, one
/// request, 8-byte request (ALL contents), 16-byte reply buffer, direct descriptors.
#[kani::proof]
#[kani::unwind(40)]
fn c20_9p_request() {
    let mut p9 = mk_9p();
    let req: [u8; 8] = kani::any();
    let mut resp = [0u8; 16];
    let used: u32 = kani::any();
    let data: [u8; CAP] = kani::any();
    dev_used_push(1, QUEUE_SIZE, 0, used);
    dev_arm(&data);
    let n0 = log_len();
    let r = p9.request(&req, &mut resp);
    assert!(sh_n() == 2, "C20: a 9p exchange is not one [request, reply] chain");
    assert!(sh(0).dir == 0 && sh(0).len == 8 && sh(0).ptr as *const u8 == req.as_ptr() && eq_prefix(&sh(0).head, &req, 8),
        "C20: the device-readable part is not the caller's request");
    assert!(sh(1).dir == 1 && sh(1).len == 16 && sh(1).ptr == resp.as_mut_ptr(), "C20: the device-writable part is not the caller's reply buffer");
    assert!(dev_avail_idx(0, QUEUE_SIZE) == 1 && unsh_n() == 2 && !unsh_bad(), "C20: one chain, all buffers unshared");
    let size = u32::from_le_bytes([data[0], data[1], data[2], data[3]]);
    assert!(r == if size == used { Ok(used) } else { Err(Error::IoError) }, "C20: header size field / used length check");
    assert!(log_len() == n0 + 1 && log_at(n0) == Ev::Notify(0), "C20: notification");
}

/// C20 K-bounded: parameter validation: an empty request or a reply buffer shorter than a 9P header (7 bytes) is
/// `InvalidParam` and nothing reaches the queue.  Bounds: the two shapes (empty request, 16-byte reply) and (8-byte
/// request, 6-byte reply).
#[kani::proof]
#[kani::unwind(40)]
fn c20_9p_params() {
    let mut p9 = mk_9p();
    let which: bool = kani::any();
    let req: [u8; 8] = kani::any();
    let mut resp = [0u8; 16];
    let r = if which { p9.request(&[], &mut resp) } else { p9.request(&req, &mut resp[..6]) };
    assert!(r == Err(Error::InvalidParam), "C20: invalid parameters not refused");
    assert!(sh_n() == 0 && dev_avail_idx(0, QUEUE_SIZE) == 0, "C20: a request with invalid parameters reached the queue");
    let mut ok7 = [0u8; 7];
    dev_used_push(1, QUEUE_SIZE, 0, 0);
    let r = p9.request(&req, &mut ok7);
    assert!(r != Err(Error::InvalidParam) && sh_n() == 2, "C20: a 7-byte reply buffer must be accepted");
}
