//! C13 Kani harnesses on the real `MmioTransport::{read,write}_config_space` and
//! `read_config_generation` (child module of `crate::transport::mmio`, appended to the scratch copy of
//! src/transport/mmio.rs, so the private fields of `MmioTransport` are visible).
//!
//! The device-configuration window is a heap object of EXACTLY `len` bytes (`len` symbolic, 1..=CAP, or the
//! empty window), so CBMC's own pointer checks flag any access outside the window; the functional
//! assertions say which bytes are read / written.  Offsets are arbitrary `usize` values.
#![allow(dead_code, missing_docs, clippy::undocumented_unsafe_blocks)]
extern crate alloc;
use super::*;
use core::mem::MaybeUninit;

/// largest window size considered (bytes).  BOUND: window sizes 0..=CAP; offsets: all of usize.
const CAP: usize = 12;

/// heap object of exactly `len` bytes, 4-aligned (the MMIO config space starts at header + 0x100), symbolic content
fn window(len: usize) -> NonNull<[u8]> {
    if len == 0 {
        return NonNull::slice_from_raw_parts(NonNull::<u32>::dangling().cast::<u8>(), 0);
    }
    let layout = alloc::alloc::Layout::from_size_align(len, 4).unwrap();
    let p = unsafe { alloc::alloc::alloc(layout) };
    let p = NonNull::new(p).unwrap();
    let mut i = 0;
    while i < len {
        unsafe { p.as_ptr().add(i).write(kani::any()) };
        i += 1;
    }
    NonNull::slice_from_raw_parts(p, len)
}

fn mk<'a>(hdr: &'a mut MaybeUninit<VirtIOHeader>, win: NonNull<[u8]>) -> MmioTransport<'a> {
    let header = unsafe { UniqueMmioPointer::new(NonNull::new(hdr.as_mut_ptr()).unwrap()) };
    let config_space = unsafe { UniqueMmioPointer::new(win) };
    MmioTransport { header, config_space, version: MmioVersion::Modern, device_type: DeviceType::Block }
}

fn byte(win: NonNull<[u8]>, i: usize) -> u8 {
    unsafe { (win.as_ptr() as *const u8).add(i).read() }
}

/// read of a `T` with any window size <= CAP and ANY offset whose end does not overflow (the overflowing
/// offsets are harness `c13_mmio_overflow_witness`, defect D6) and that is aligned (otherwise: the
/// documented panic, harness `c13_mmio_misaligned_panics`).
fn read_case<T: FromBytes + IntoBytes + Immutable + Copy>() {
    let mut hdr = MaybeUninit::<VirtIOHeader>::zeroed();
    let len: usize = kani::any();
    kani::assume(len <= CAP);
    let win = window(len);
    let offset: usize = kani::any();
    kani::assume(offset <= usize::MAX - size_of::<T>());
    kani::assume(offset % align_of::<T>() == 0);
    let t = mk(&mut hdr, win);
    let r = t.read_config_space::<T>(offset);
    if offset + size_of::<T>() <= len {
        assert!(r.is_ok(), "C13: access wholly inside the window was refused");
        let v = r.unwrap();
        let vb = v.as_bytes();
        let mut i = 0;
        while i < size_of::<T>() {
            assert!(vb[i] == byte(win, offset + i), "C13: value read is not the window bytes [offset, offset+size)");
            i += 1;
        }
    } else {
        assert!(matches!(r, Err(Error::ConfigSpaceTooSmall)), "C13: access not wholly inside the window must fail with ConfigSpaceTooSmall");
    }
    core::mem::forget(t);
}

/// write of a `T`: success iff inside; exactly the bytes [offset, offset+size) change, to the value's bytes.
fn write_case<T: FromBytes + IntoBytes + Immutable + Copy + kani::Arbitrary>() {
    let mut hdr = MaybeUninit::<VirtIOHeader>::zeroed();
    let len: usize = kani::any();
    kani::assume(len <= CAP);
    let win = window(len);
    let mut before = [0u8; CAP];
    let mut i = 0;
    while i < len {
        before[i] = byte(win, i);
        i += 1;
    }
    let offset: usize = kani::any();
    kani::assume(offset <= usize::MAX - size_of::<T>());
    kani::assume(offset % align_of::<T>() == 0);
    let v: T = kani::any();
    let mut t = mk(&mut hdr, win);
    let r = t.write_config_space::<T>(offset, v);
    let inside = offset + size_of::<T>() <= len;
    assert!(r.is_ok() == inside, "C13: write succeeds iff wholly inside the window");
    if !inside {
        assert!(matches!(r, Err(Error::ConfigSpaceTooSmall)), "C13: write outside the window must fail with ConfigSpaceTooSmall");
    }
    let vb = v.as_bytes();
    let mut i = 0;
    while i < len {
        if inside && i >= offset && i < offset + size_of::<T>() {
            assert!(byte(win, i) == vb[i - offset], "C13: written bytes differ from the value");
        } else {
            assert!(byte(win, i) == before[i], "C13: a byte outside [offset, offset+size) changed");
        }
        i += 1;
    }
    core::mem::forget(t);
}

/// C13 K: complete for window sizes 0..=12 x all aligned usize offsets without end overflow, T = u8.
#[kani::proof]
#[kani::unwind(14)]
fn c13_mmio_read_u8() { read_case::<u8>(); }
/// C13 K: as above, T = u16.
#[kani::proof]
#[kani::unwind(14)]
fn c13_mmio_read_u16() { read_case::<u16>(); }
/// C13 K: as above, T = u32.
#[kani::proof]
#[kani::unwind(14)]
fn c13_mmio_read_u32() { read_case::<u32>(); }
/// C13 K: as above, T = [u8; 6] (the MAC address: size 6, alignment 1).
#[kani::proof]
#[kani::unwind(14)]
fn c13_mmio_read_mac() { read_case::<[u8; 6]>(); }
/// C13 K: writes, T = u32 / u8.
#[kani::proof]
#[kani::unwind(14)]
fn c13_mmio_write_u32() { write_case::<u32>(); }
#[kani::proof]
#[kani::unwind(14)]
fn c13_mmio_write_u8() { write_case::<u8>(); }

/// C13 / D6 WITNESS (expected to FAIL on the unfixed tree): no assumption on the offset.  `offset +
/// size_of::<T>()` overflows `usize` for offset > usize::MAX - 4: arithmetic-overflow panic with overflow
/// checks, wrap-around and an out-of-window `byte_add`/read without.
#[kani::proof]
#[kani::unwind(14)]
fn c13_mmio_overflow_witness() {
    let mut hdr = MaybeUninit::<VirtIOHeader>::zeroed();
    let len: usize = kani::any();
    kani::assume(len <= CAP);
    let win = window(len);
    let offset: usize = kani::any();
    kani::assume(offset % 4 == 0);
    let t = mk(&mut hdr, win);
    let r = t.read_config_space::<u32>(offset);
    if offset > CAP {
        assert!(matches!(r, Err(Error::ConfigSpaceTooSmall)), "C13: access beyond the window must fail with ConfigSpaceTooSmall");
    }
    core::mem::forget(t);
}

/// C13 K: a misaligned offset is rejected by a panic before any access (every execution panics).
#[kani::proof]
#[kani::should_panic]
#[kani::unwind(14)]
fn c13_mmio_misaligned_panics() {
    let mut hdr = MaybeUninit::<VirtIOHeader>::zeroed();
    let win = window(8);
    let offset: usize = kani::any();
    kani::assume(offset % 4 != 0 && offset < 8);
    let t = mk(&mut hdr, win);
    let _ = t.read_config_space::<u32>(offset);
    core::mem::forget(t);
}

/// C13 K: `read_config_generation` returns the 32-bit ConfigGeneration register (offset 0x0fc) and nothing else.
#[kani::proof]
fn c13_mmio_generation() {
    let mut hdr = MaybeUninit::<VirtIOHeader>::zeroed();
    let g: u32 = kani::any();
    unsafe { (hdr.as_mut_ptr() as *mut u8).add(0xfc).cast::<u32>().write(g) };
    let t = mk(&mut hdr, window(0));
    assert!(t.read_config_generation() == g, "C13: read_config_generation does not return register 0x0fc");
    core::mem::forget(t);
}
