//! C09, construction-failure clause, liveness part (second back end for the Verus units init_*): on the REAL
//! constructors, against the recording HAL/transport of support.rs.  Appended to src/device/mod.rs.
//!
//! Oracle `finish_live`: when a constructor returns `Err`, no status write of this construction had the DRIVER_OK
//! bit (the call log starts at `setup`; `begin_init` starts with a reset), i.e. the local queues were freed while the
//! device was not live; when it returns `Ok`, DRIVER_OK was written exactly once.  Independently, the HAL of
//! support.rs asserts inside `dma_dealloc` that no region registered for an enabled queue is freed while DRIVER_OK
//! is set, and the ledger asserts that nothing leaks.
//!
//! Fault points enumerated per driver (all symbolic, `kani::cover!` shows which are reachable): the k-th `dma_alloc`
//! fails (k <= 5, 0 = none); the configuration space is too short for the driver's reads (`config_len` symbolic);
//! the queue is already in use (`queue_used`) or the device's maximum queue size is too small (`max_queue_size`
//! symbolic).  Bounds: every loop fully unwound (queue sizes 2..16); rng/blk: symbolic 64-bit offered word, the
//! others VERSION_1|EVENT_IDX|INDIRECT_DESC; both queue layouts.
#![allow(dead_code, missing_docs, clippy::undocumented_unsafe_blocks)]
use crate::transport::DeviceType;
use crate::verif_support::*;

const F_V1_EV_IND: u64 = (1 << 32) | (1 << 29) | (1 << 28);

fn setup(t: DeviceType, features: u64, sym_cfg: bool) -> KTransport {
    log_reset();
    let mut tr = KTransport::new(t);
    tr.device_features = features;
    tr.legacy = kani::any();
    tr.unset_noop = kani::any();
    // fault points
    let fail_at: usize = kani::any();
    kani::assume(fail_at <= 5);
    unsafe { LOG.fail_alloc_at = fail_at; }
    if sym_cfg {
        tr.config_len = kani::any();
        kani::assume(tr.config_len <= 64);
    }
    tr.queue_used = kani::any();
    tr.max_queue_size = kani::any();
    tr
}

/// number of status writes with the DRIVER_OK bit in the call log
fn driver_ok_writes() -> usize {
    let mut n = 0;
    let mut i = 0;
    while i < MAX_EV {
        if i < log_len() {
            if let Ev::SetStatus(s) = log_at(i) {
                if s & 4 != 0 { n += 1; }
            }
        }
        i += 1;
    }
    n
}

fn finish_live<T>(r: crate::Result<T>) {
    let n = driver_ok_writes();
    kani::cover!(r.is_ok(), "construction succeeds");
    kani::cover!(r.is_err(), "construction fails");
    unsafe {
        kani::cover!(r.is_err() && LOG.fail_alloc_at != 0 && LOG.allocs >= LOG.fail_alloc_at, "fails: a DMA allocation failed");
        kani::cover!(r.is_err() && (LOG.fail_alloc_at == 0 || LOG.allocs < LOG.fail_alloc_at), "fails: for another reason (config space, queue refused)");
    }
    match r {
        Ok(d) => {
            assert!(n == 1, "C09: construction succeeded without exactly one DRIVER_OK write");
            drop(d);
        }
        Err(_) => {
            assert!(n == 0, "C09: constructor returned Err after DRIVER_OK was written (local queues freed while the device is live)");
        }
    }
    assert!(ledger_empty(), "C09: a DMA region was leaked");
}

#[kani::proof]
#[kani::unwind(50)]
fn c09_initlive_rng() {
    let tr = setup(DeviceType::EntropySource, kani::any(), true);
    finish_live(crate::device::rng::VirtIORng::<KHal, KTransport>::new(tr));
}

#[kani::proof]
#[kani::unwind(50)]
fn c09_initlive_blk() {
    let tr = setup(DeviceType::Block, kani::any(), true);
    finish_live(crate::device::blk::VirtIOBlk::<KHal, KTransport>::new(tr));
}

/// 9P: the mount tag length prefix is 0 (-> InvalidParam: the constructor always fails here, after the queue was set up);
/// non-empty tags go through Vec/String (beyond CBMC's reach here), and with a symbolic configuration-space length CBMC
/// did not finish within 30 min, so the length is the concrete 64 for this driver
#[kani::proof]
#[kani::unwind(50)]
fn c09_initlive_9p() {
    let mut tr = setup(DeviceType::_9P, F_V1_EV_IND, false);
    tr.config[0] = 0;
    tr.config[1] = 0;
    finish_live(crate::device::virtio_9p::VirtIO9p::<KHal, KTransport>::new(tr));
}

#[kani::proof]
#[kani::unwind(50)]
fn c09_initlive_rtc() {
    let tr = setup(DeviceType::Timer, F_V1_EV_IND, true);
    finish_live(crate::device::rtc::VirtIORtc::<KHal, KTransport>::new(tr));
}

#[kani::proof]
#[kani::unwind(50)]
fn c09_initlive_gpu() {
    let tr = setup(DeviceType::GPU, F_V1_EV_IND, true);
    finish_live(crate::device::gpu::VirtIOGpu::<KHal, KTransport>::new(tr));
}

#[kani::proof]
#[kani::unwind(50)]
fn c09_initlive_console() {
    let tr = setup(DeviceType::Console, F_V1_EV_IND, true);
    finish_live(crate::device::console::VirtIOConsole::<KHal, KTransport>::new(tr));
}

#[kani::proof]
#[kani::unwind(50)]
fn c09_initlive_net_raw() {
    let tr = setup(DeviceType::Network, F_V1_EV_IND, true);
    finish_live(crate::device::net::VirtIONetRaw::<KHal, KTransport, 4>::new(tr));
}

/// The buffered network constructor fails AFTER DRIVER_OK when the receive buffer length is below MIN_BUFFER_LEN
/// (1526): `receive_begin` refuses the first buffer.  The queues then belong to the complete raw driver, whose Drop
/// disables them (or, if `queue_unset` cannot disable a queue - `unset_noop`, like PCI - whose transport field is
/// dropped, i.e. the device reset, before the queue fields).  Checked here on the real code: the constructor returns
/// Err(InvalidParam) although DRIVER_OK was written, no buffer was made available (no Share event), and the oracle
/// inside `dma_dealloc` (no region of an enabled queue freed while DRIVER_OK is set) holds; nothing leaks.
/// Bounds: QUEUE_SIZE = 4, concrete buffer length (0 here, 1520 in the next harness; a symbolic Vec length is beyond
/// CBMC here), no allocation failure, well-behaved transport, both layouts.
fn net_buf_short(buf_len: usize) {
    log_reset();
    let mut tr = KTransport::new(DeviceType::Network);
    tr.device_features = F_V1_EV_IND;
    tr.legacy = kani::any();
    tr.unset_noop = kani::any();
    let r = crate::device::net::VirtIONet::<KHal, KTransport, 4>::new(tr, buf_len);
    assert!(matches!(r, Err(crate::Error::InvalidParam)), "C09: a receive buffer shorter than MIN_BUFFER_LEN must be refused");
    assert!(driver_ok_writes() == 1, "C09 (scenario): the buffered constructor fails after DRIVER_OK");
    let mut shares = 0;
    let mut i = 0;
    while i < MAX_EV {
        if i < log_len() {
            if let Ev::Share(..) = log_at(i) { shares += 1; }
        }
        i += 1;
    }
    assert!(shares == 0, "C09: a receive buffer was posted before the constructor failed (it is freed while the device is live)");
    assert!(ledger_empty(), "C09: a DMA region was leaked");
}

#[kani::proof]
#[kani::unwind(50)]
fn c09_initlive_net_buf_short() {
    net_buf_short(0);
}

/// the same with a 1520-byte buffer (the largest 8-byte multiple below MIN_BUFFER_LEN)
#[kani::proof]
#[kani::unwind(50)]
fn c09_initlive_net_buf_1520() {
    net_buf_short(1520);
}
