//! Kani harnesses for C15 over the real `VirtIOConsole` (child module of `crate::device::console`, so the private
//! fields `cursor`, `pending_len`, `receive_token`, `queue_buf_rx` are visible).  Appended to the scratch copy of
//! src/device/console.rs.
//!
//! Self-contained: a recording HAL (`CHal`) and transport (`CTransport`) defined here.  The private rings of the two
//! `VirtQueue`s are not reachable from this module; the *device side* is played through the DMA regions the HAL
//! handed out (the pointers `dma_alloc` returned, no integer-to-pointer casts): the device-to-driver region of a
//! queue starts with its used ring, the driver-to-device region with its descriptor table (modern layout).
#![allow(dead_code, missing_docs, clippy::undocumented_unsafe_blocks, static_mut_refs)]
extern crate alloc;
use super::*;
use crate::transport::DeviceType;
use crate::{BufferDirection, PhysAddr};
use core::ptr::NonNull;
use ::embedded_io::{BufRead, Read, ReadReady, Write as EioWrite};

const BOUNCE: u64 = 0x1_0000_0000;
const RXQ: usize = 0;
const TXQ: usize = 1;
const DMA_BYTES: usize = 64;

struct Dev {
    /// device-to-driver regions (used rings) in allocation order: [receiveq, transmitq]
    used: [*mut u8; 2],
    n_used: usize,
    /// driver-to-device regions (descriptor table + available ring) in allocation order
    drv: [*mut u8; 2],
    n_drv: usize,
    /// last buffer shared as device-readable: pointer, length, first bytes
    tx_ptr: usize,
    tx_len: usize,
    tx_bytes: [u8; 4],
    tx_shares: usize,
    /// last buffer shared as device-writable
    rx_ptr: usize,
    rx_len: usize,
    rx_shares: usize,
    notifies: [usize; 2],
    cfg_writes: usize,
    /// descriptor 0 (addr, len, flags) and available index of the queue, as the device sees them when it is notified
    seen_desc0: (u64, u32, u16),
    seen_avail: u16,
}
static mut DEV: Dev = Dev {
    used: [core::ptr::null_mut(); 2], n_used: 0, drv: [core::ptr::null_mut(); 2], n_drv: 0,
    tx_ptr: 0, tx_len: 0, tx_bytes: [0; 4], tx_shares: 0, rx_ptr: 0, rx_len: 0, rx_shares: 0,
    notifies: [0; 2], cfg_writes: 0, seen_desc0: (0, 0, 0), seen_avail: 0,
};

struct CHal;
unsafe impl Hal for CHal {
    fn dma_alloc(pages: usize, direction: BufferDirection, _ap: bool) -> (PhysAddr, NonNull<u8>) {
        assert!(pages == 1);
        // Only the first DMA_BYTES of the page exist as an object: the two-entry rings need 42 / 22 bytes; any access
        // beyond is reported by CBMC as out of bounds (so this cannot hide anything) and the model stays small.
        let layout = alloc::alloc::Layout::from_size_align(DMA_BYTES, PAGE_SIZE).unwrap();
        let p = unsafe { alloc::alloc::alloc_zeroed(layout) };
        unsafe {
            match direction {
                BufferDirection::DeviceToDriver => { assert!(DEV.n_used < 2); DEV.used[DEV.n_used] = p; DEV.n_used += 1; }
                BufferDirection::DriverToDevice => { assert!(DEV.n_drv < 2); DEV.drv[DEV.n_drv] = p; DEV.n_drv += 1; }
                BufferDirection::Both => panic!("verif: legacy layout not used here"),
            }
        }
        (p as u64 + BOUNCE, NonNull::new(p).unwrap())
    }
    unsafe fn dma_dealloc(_paddr: PhysAddr, vaddr: NonNull<u8>, _pages: usize, _ap: bool) -> i32 {
        let layout = alloc::alloc::Layout::from_size_align(DMA_BYTES, PAGE_SIZE).unwrap();
        unsafe { alloc::alloc::dealloc(vaddr.as_ptr(), layout) };
        0
    }
    unsafe fn mmio_phys_to_virt(_paddr: PhysAddr, _size: usize) -> NonNull<u8> { NonNull::dangling() }
    unsafe fn share(buffer: NonNull<[u8]>, direction: BufferDirection, _ap: bool) -> PhysAddr {
        let v = buffer.as_ptr() as *mut u8;
        unsafe {
            match direction {
                BufferDirection::DriverToDevice => {
                    DEV.tx_ptr = v as usize;
                    DEV.tx_len = buffer.len();
                    let mut i = 0;
                    while i < 4 { if i < buffer.len() { DEV.tx_bytes[i] = *v.add(i); } i += 1; }
                    DEV.tx_shares += 1;
                }
                _ => { DEV.rx_ptr = v as usize; DEV.rx_len = buffer.len(); DEV.rx_shares += 1; }
            }
        }
        v as u64 + BOUNCE
    }
    unsafe fn unshare(_paddr: PhysAddr, _buffer: NonNull<[u8]>, _direction: BufferDirection, _ap: bool) {}
}

struct CTransport {
    device_features: u64,
    /// what the next ack_interrupt() answers
    isr: u32,
    status: u32,
    emerg: u32,
    cols: u16,
    rows: u16,
}
impl Transport for CTransport {
    fn device_type(&self) -> DeviceType { DeviceType::Console }
    fn read_device_features(&mut self) -> u64 { self.device_features }
    fn write_driver_features(&mut self, _f: u64) {}
    fn max_queue_size(&mut self, _q: u16) -> u32 { 2 }
    fn notify(&mut self, q: u16) {
        let q = (q & 1) as usize;
        unsafe {
            DEV.notifies[q] += 1;
            DEV.seen_desc0 = dev_desc(q, 0);
            DEV.seen_avail = dev_avail_idx(q);
        }
    }
    fn get_status(&self) -> crate::transport::DeviceStatus { crate::transport::DeviceStatus::from_bits_retain(self.status) }
    fn set_status(&mut self, s: crate::transport::DeviceStatus) { self.status = s.bits(); }
    fn set_guest_page_size(&mut self, _s: u32) {}
    fn requires_legacy_layout(&self) -> bool { false }
    fn queue_set(&mut self, _q: u16, _size: u32, _d: PhysAddr, _a: PhysAddr, _u: PhysAddr) {}
    fn queue_unset(&mut self, _q: u16) {}
    fn queue_used(&mut self, _q: u16) -> bool { false }
    fn ack_interrupt(&mut self) -> InterruptStatus { InterruptStatus::from_bits_retain(self.isr) }
    fn read_config_generation(&self) -> u32 { 0 }
    fn read_config_space<V: FromBytes + IntoBytes>(&self, offset: usize) -> Result<V> {
        // cols @0, rows @2 (u16)
        let v: u16 = if offset == 0 { self.cols } else if offset == 2 { self.rows } else { return Err(Error::ConfigSpaceTooSmall) };
        V::read_from_bytes(v.as_bytes()).map_err(|_| Error::ConfigSpaceTooSmall)
    }
    fn write_config_space<V: IntoBytes + Immutable>(&mut self, offset: usize, value: V) -> Result<()> {
        unsafe { DEV.cfg_writes += 1; }
        if offset != 8 || core::mem::size_of::<V>() != 4 { return Err(Error::ConfigSpaceTooSmall); }
        let b = value.as_bytes();
        self.emerg = u32::from_le_bytes([b[0], b[1], b[2], b[3]]);
        Ok(())
    }
}

type Con = VirtIOConsole<CHal, CTransport>;

fn dev_reset() {
    unsafe {
        DEV.n_used = 0; DEV.n_drv = 0; DEV.tx_shares = 0; DEV.rx_shares = 0; DEV.notifies = [0; 2]; DEV.cfg_writes = 0;
        DEV.tx_len = 0; DEV.rx_len = 0;
    }
}
fn mk(features: u64) -> Con {
    dev_reset();
    let t = CTransport { device_features: features, isr: 0, status: 0, emerg: 0, cols: 0, rows: 0 };
    let c = Con::new(t).unwrap();
    unsafe { assert!(DEV.n_used == 2 && DEV.n_drv == 2); }
    c
}
/// the device puts (token, len) into used-ring slot `k % 2` of queue `q` (SIZE = 2) and sets used.idx = k + 1, where
/// `k` = number of completions on that queue so far (given by the harness, so that all offsets are concrete)
fn dev_used_push(q: usize, k: u16, token: u16, len: u32) {
    unsafe {
        let p = DEV.used[q];
        let slot = (k & 1) as usize;
        *(p.add(4 + 8 * slot) as *mut u32) = token as u32;
        *(p.add(8 + 8 * slot) as *mut u32) = len;
        *(p.add(2) as *mut u16) = k.wrapping_add(1);
    }
}
/// descriptor `i` of queue `q` as the device sees it: (addr, len, flags)
fn dev_desc(q: usize, i: usize) -> (u64, u32, u16) {
    unsafe {
        let p = DEV.drv[q].add(16 * i);
        (*(p as *const u64), *(p.add(8) as *const u32), *(p.add(12) as *const u16))
    }
}
/// available index of queue `q` as the device sees it (after the 2-entry descriptor table: flags@32, idx@34)
fn dev_avail_idx(q: usize) -> u16 { unsafe { *(DEV.drv[q].add(34) as *const u16) } }

/// the C15 state invariant on the real struct, with the number of chains the device holds on the receive queue
fn check_inv(c: &Con) {
    assert!(c.cursor <= c.pending_len, "C15: cursor beyond pending_len");
    assert!(c.pending_len <= PAGE_SIZE, "C15: pending_len beyond the buffer");
    if c.receive_token.is_some() {
        assert!(c.cursor == c.pending_len, "C15: receive buffer outstanding while received data is still pending");
        assert!(c.receiveq.available_desc() == QUEUE_SIZE - 1, "C15: not exactly one receive chain outstanding");
    } else {
        assert!(c.receiveq.available_desc() == QUEUE_SIZE, "C15: a receive chain is outstanding without a token");
    }
}

/// C15 K-complete (loop-free): the constants and bit positions the Verus unit models by hand are those of the real
/// types: feature bits, supported set, `contains`, queue indices, buffer size, config offsets, interrupt bit.
#[kani::proof]
fn c15_consts() {
    assert!(Features::SIZE.bits() == 1 << 0 && Features::MULTIPORT.bits() == 1 << 1 && Features::EMERG_WRITE.bits() == 1 << 2);
    assert!(Features::RING_INDIRECT_DESC.bits() == 1 << 28 && Features::RING_EVENT_IDX.bits() == 1 << 29);
    assert!(Features::VERSION_1.bits() == 1 << 32 && Features::ACCESS_PLATFORM.bits() == 1 << 33);
    assert!(SUPPORTED_FEATURES.bits() == 0x3_3000_0005, "C15: supported feature set");
    let x: u64 = kani::any();
    let f = Features::from_bits_retain(x);
    assert!(f.contains(Features::SIZE) == (x & 1 == 1));
    assert!(f.contains(Features::EMERG_WRITE) == (x & 4 == 4));
    assert!(f.contains(Features::RING_INDIRECT_DESC) == (x & 0x1000_0000 == 0x1000_0000));
    assert!(f.contains(Features::RING_EVENT_IDX) == (x & 0x2000_0000 == 0x2000_0000));
    assert!(f.contains(Features::ACCESS_PLATFORM) == (x & 0x2_0000_0000 == 0x2_0000_0000));
    let y: u32 = kani::any();
    assert!(InterruptStatus::from_bits_retain(y).contains(InterruptStatus::QUEUE_INTERRUPT) == (y & 1 == 1));
    assert!(QUEUE_RECEIVEQ_PORT_0 == 0 && QUEUE_TRANSMITQ_PORT_0 == 1 && QUEUE_SIZE == 2 && PAGE_SIZE == 4096);
    assert!(core::mem::offset_of!(Config, cols) == 0 && core::mem::offset_of!(Config, rows) == 2);
    assert!(core::mem::offset_of!(Config, max_nr_ports) == 4 && core::mem::offset_of!(Config, emerg_wr) == 8);
    assert!(core::mem::size_of::<ReadOnly<u16>>() == 2 && core::mem::size_of::<WriteOnly<u32>>() == 4);
    let ch: u8 = kani::any();
    let w: u32 = ch.into();
    assert!(w == ch as u32);
}

/// C15 bounded stand-in (real code, queue size 2, no features offered): `new` leaves cursor = pending_len = 0 and has
/// posted the whole 4096-byte buffer exactly once, as one device-writable descriptor, and notified queue 0; nothing is
/// on the transmit queue; nothing can be received yet.
#[kani::proof]
#[kani::unwind(20)]
fn c15_new_state() {
    let mut c = mk(0);
    check_inv(&c);
    assert!(c.cursor == 0 && c.pending_len == 0);
    unsafe {
        assert!(DEV.rx_shares == 1 && DEV.rx_len == PAGE_SIZE && DEV.rx_ptr == c.queue_buf_rx.as_ptr() as usize, "C15: the receive chain is not the whole receive buffer");
        assert!(DEV.tx_shares == 0 && DEV.notifies[RXQ] == 1 && DEV.notifies[TXQ] == 0);
    }
    let t0 = c.receive_token.expect("C15: no receive buffer posted by new");
    let (addr, len, flags) = dev_desc(RXQ, t0 as usize);
    assert!(addr == c.queue_buf_rx.as_ptr() as u64 + BOUNCE && len == 4096 && flags == 2, "C15: receive descriptor is not [buffer, 4096, WRITE]");
    assert!(dev_avail_idx(RXQ) == 1 && dev_avail_idx(TXQ) == 0);
    assert!(c.recv(true) == Ok(None) && c.recv(false) == Ok(None), "C15: data out of nothing");
    check_inv(&c);
    unsafe { assert!(DEV.rx_shares == 1); }
}

/// C15 bounded stand-in (real code): a first chunk of 1..=2 symbolic bytes, completed by the device after the buffer
/// was posted, is delivered by recv(peek)/recv(pop) exactly once and in order; the buffer is re-posted exactly when
/// the chunk has been consumed (not before), and then nothing more is delivered.
#[kani::proof]
#[kani::unwind(20)]
fn c15_rx_recv() {
    let mut c = mk(0);
    let t0 = c.receive_token.unwrap();
    let n1: u32 = kani::any();
    kani::assume(n1 >= 1 && n1 <= 2);
    let (b0, b1): (u8, u8) = (kani::any(), kani::any());
    c.queue_buf_rx[0] = b0;
    c.queue_buf_rx[1] = b1;
    dev_used_push(RXQ, 0, t0, n1);
    // a peek does not consume
    assert!(c.recv(false) == Ok(Some(b0)), "C15: peek");
    assert!(c.receive_token.is_none(), "C15: buffer re-posted before the chunk was consumed");
    check_inv(&c);
    assert!(c.recv(true) == Ok(Some(b0)), "C15: first byte");
    if n1 == 2 {
        assert!(c.receive_token.is_none(), "C15: buffer re-posted before the chunk was consumed");
        check_inv(&c);
        assert!(c.recv(true) == Ok(Some(b1)), "C15: second byte");
    }
    // consumed: posted again, exactly once more
    check_inv(&c);
    assert!(c.receive_token.is_some(), "C15: buffer not re-posted after the chunk was consumed");
    unsafe { assert!(DEV.rx_shares == 2 && DEV.rx_len == PAGE_SIZE, "C15: re-post count / shape"); }
    assert!(dev_avail_idx(RXQ) == 2);
    assert!(c.recv(true) == Ok(None), "C15: byte duplicated after the chunk was consumed");
}

/// C15 bounded stand-in (real code): a second chunk follows the first: after the one-byte first chunk was popped
/// the re-posted buffer is completed again and its byte is the next one delivered.
#[kani::proof]
#[kani::unwind(20)]
fn c15_rx_second_chunk() {
    let mut c = mk(0);
    let t0 = c.receive_token.unwrap();
    let b0: u8 = kani::any();
    c.queue_buf_rx[0] = b0;
    dev_used_push(RXQ, 0, t0, 1);
    assert!(c.recv(true) == Ok(Some(b0)), "C15: first chunk");
    let t1 = c.receive_token.expect("C15: buffer not re-posted after the chunk was consumed");
    let d0: u8 = kani::any();
    c.queue_buf_rx[0] = d0;
    dev_used_push(RXQ, 1, t1, 1);
    assert!(c.recv(true) == Ok(Some(d0)), "C15: second chunk");
    check_inv(&c);
    unsafe { assert!(DEV.rx_shares == 3 && DEV.tx_shares == 0); }
}

/// C15 bounded stand-in (real code): a finished chunk of 3 bytes is taken in by `ack_interrupt` iff the (symbolic)
/// interrupt status has the queue-interrupt bit; the result says so; nothing is posted or handed out.
#[kani::proof]
#[kani::unwind(20)]
fn c15_rx_ack_interrupt() {
    let mut c = mk(0);
    let t0 = c.receive_token.unwrap();
    dev_used_push(RXQ, 0, t0, 3);
    let isr: u32 = kani::any();
    c.transport.isr = isr;
    let r = c.ack_interrupt();
    assert!(r == Ok(isr & 1 == 1), "C15: ack_interrupt result");
    if isr & 1 == 1 {
        assert!(c.cursor == 0 && c.pending_len == 3 && c.receive_token.is_none(), "C15: chunk not taken in");
    } else {
        assert!(c.cursor == 0 && c.pending_len == 0 && c.receive_token == Some(t0), "C15: state changed without a queue interrupt");
    }
    check_inv(&c);
    unsafe { assert!(DEV.rx_shares == 1, "C15: ack_interrupt must not post"); }
}

/// C15 bounded stand-in (real code): one chunk of 3 symbolic bytes taken in by read_ready; then read (2-byte
/// buffer), fill_buf (twice) + consume(1) return the bytes exactly once and in order; an empty read does nothing; none
/// of these calls posts a buffer.  (After the chunk is taken in, the harness re-assigns the asserted values of
/// cursor / pending_len / receive_token so that CBMC sees constants and does not unwind the wait loop 20 times; the
/// path where a blocking read has to post and wait is covered by the Verus contract of wait_for_receive only.)
#[kani::proof]
#[kani::unwind(20)]
fn c15_rx_read_bufread() {
    let mut c = mk(0);
    let t0 = c.receive_token.unwrap();
    let (b0, b1, b2): (u8, u8, u8) = (kani::any(), kani::any(), kani::any());
    c.queue_buf_rx[0] = b0;
    c.queue_buf_rx[1] = b1;
    c.queue_buf_rx[2] = b2;
    dev_used_push(RXQ, 0, t0, 3);
    assert!(c.read_ready() == Ok(true), "C15: read_ready with a finished chunk");
    assert!(c.cursor == 0 && c.pending_len == 3 && c.receive_token.is_none());
    c.cursor = 0; c.pending_len = 3; c.receive_token = None;   // the values just asserted, as constants
    check_inv(&c);
    let mut buf = [0u8; 2];
    assert!(c.read(&mut buf) == Ok(2) && buf == [b0, b1], "C15: read returns the first two bytes in order");
    assert!(c.receive_token.is_none(), "C15: buffer re-posted before the chunk was consumed");
    {
        let s = c.fill_buf().unwrap();
        assert!(s.len() == 1 && s[0] == b2, "C15: fill_buf returns exactly the pending data");
    }
    {
        let s = c.fill_buf().unwrap();
        assert!(s.len() == 1 && s[0] == b2, "C15: fill_buf does not consume");
    }
    c.consume(1);
    check_inv(&c);
    assert!(c.cursor == 3 && c.read_ready() == Ok(false), "C15: byte duplicated after consume");
    let mut e: [u8; 0] = [];
    assert!(c.read(&mut e) == Ok(0));
    unsafe { assert!(DEV.rx_shares == 1, "C15: read / fill_buf / consume / read_ready must not post while data is pending or nothing is asked for"); }
}

/// C15 bounded stand-in (real code): `send` / `send_bytes` / embedded-io `write` place exactly the caller's bytes,
/// device-readable, as one single-descriptor chain on the transmit queue; an empty `write` places nothing.
#[kani::proof]
#[kani::unwind(20)]
fn c15_tx() {
    let mut c = mk(0);
    let ch: u8 = kani::any();
    // the device completes the first transmit chain (token 0) as soon as it is there
    dev_used_push(TXQ, 0, 0, 0);
    assert!(c.send(ch) == Ok(()));
    unsafe {
        assert!(DEV.tx_shares == 1 && DEV.tx_len == 1 && DEV.tx_bytes[0] == ch, "C15: send does not place exactly the caller's byte");
        assert!(DEV.notifies[TXQ] == 1, "C15: transmit queue not notified");
    }
    unsafe {
        let (_a, l, f) = DEV.seen_desc0;
        assert!(l == 1 && f == 0 && DEV.seen_avail == 1, "C15: transmit descriptor is not [1 byte, device-readable, end of chain]");
    }
    let data: [u8; 3] = [kani::any(), kani::any(), kani::any()];
    dev_used_push(TXQ, 1, 0, 0);
    let by_write: bool = kani::any();
    if by_write { assert!(EioWrite::write(&mut c, &data) == Ok(3)); } else { assert!(c.send_bytes(&data) == Ok(())); }
    unsafe {
        assert!(DEV.tx_shares == 2 && DEV.tx_len == 3 && DEV.tx_ptr == data.as_ptr() as usize, "C15: send_bytes does not place exactly the caller's buffer");
        assert!(DEV.tx_bytes[0] == data[0] && DEV.tx_bytes[1] == data[1] && DEV.tx_bytes[2] == data[2]);
    }
    unsafe {
        let (a, l, f) = DEV.seen_desc0;
        assert!(a == data.as_ptr() as u64 + BOUNCE && l == 3 && f == 0 && DEV.seen_avail == 2, "C15: transmit descriptor is not the caller's buffer");
        assert!(DEV.notifies[TXQ] == 2);
    }
    // empty write: nothing on the queue
    assert!(EioWrite::write(&mut c, &[]) == Ok(0));
    unsafe { assert!(DEV.tx_shares == 2, "C15: empty write reached the queue"); }
    assert!(dev_avail_idx(TXQ) == 2);
    // the receive side was not touched
    unsafe { assert!(DEV.rx_shares == 1); }
    check_inv(&c);
}

/// C15/C07: a device that reports MORE than the 4096 bytes of the buffer: `finish_receive` accepts the length, no
/// out-of-range slice is ever formed: `fill_buf` ends in Rust's range-check panic (clean).  `should_panic`: passes iff
/// a panic is reachable and every *other* check (pointer validity, bounds of raw accesses) holds.  (The length is
/// concrete: with a symbolic one CBMC cannot decide the wait loop's condition and unwinds it 20 times.)
fn overlong_fill_buf(n: u32) {
    let mut c = mk(0);
    let t0 = c.receive_token.unwrap();
    dev_used_push(RXQ, 0, t0, n);
    assert!(c.read_ready() == Ok(true));
    assert!(c.pending_len == n as usize && c.cursor == 0 && c.receive_token.is_none());
    let _ = c.fill_buf();
}
/// bounded stand-in: reported length 4097
#[kani::proof]
#[kani::unwind(20)]
#[kani::should_panic]
fn c15_overlong_fill_buf_panics() { overlong_fill_buf(4097); }
/// bounded stand-in: reported length 2^32 - 1
#[kani::proof]
#[kani::unwind(20)]
#[kani::should_panic]
fn c15_overlong_max_fill_buf_panics() { overlong_fill_buf(u32::MAX); }

/// C15/C07: same device (reported length 4098); single-byte reads hand out buffer bytes until the cursor reaches the
/// end of the buffer, then `recv` ends in Rust's index-check panic (clean), never an out-of-range read.
#[kani::proof]
#[kani::unwind(20)]
#[kani::should_panic]
fn c15_overlong_recv_panics() {
    let mut c = mk(0);
    let t0 = c.receive_token.unwrap();
    dev_used_push(RXQ, 0, t0, 4098);
    let b: u8 = kani::any();
    c.queue_buf_rx[4095] = b;
    assert!(c.recv(false).is_ok());
    // (4095 pops later)
    c.cursor = 4095;
    assert!(c.recv(true) == Ok(Some(b)));
    assert!(c.cursor == 4096 && c.receive_token.is_none());
    let _ = c.recv(true);
}

/// A console whose receive state is (cursor, pending_len) and nothing else: `consume` touches only these two fields,
/// so the queues, the transport and the buffer are left as zero bytes and never used or dropped.  Every state with
/// cursor <= pending_len <= 4096 is reachable by the real code (see c15_rx_read_bufread for one).
fn with_rx_state(cursor: usize, pending_len: usize, f: impl FnOnce(&mut Con)) {
    let mut m = core::mem::MaybeUninit::<Con>::zeroed();
    let c = unsafe { &mut *m.as_mut_ptr() };
    c.cursor = cursor;
    c.pending_len = pending_len;
    f(c);
}

/// C15 K-complete (loop-free, every state cursor <= pending_len <= 4096, every amt within the pending data):
/// `consume(amt)` advances the cursor by exactly amt and changes nothing else.
#[kani::proof]
fn c15_consume_ok() {
    let (cursor, pending_len, amt): (usize, usize, usize) = (kani::any(), kani::any(), kani::any());
    kani::assume(cursor <= pending_len && pending_len <= PAGE_SIZE && amt <= pending_len - cursor);
    with_rx_state(cursor, pending_len, |c| {
        c.consume(amt);
        assert!(c.cursor == cursor + amt && c.pending_len == pending_len && c.receive_token.is_none(), "C15: consume");
    });
}

/// C15 K-complete (loop-free): an amount beyond the pending data (documented caller error), as long as
/// cursor + amt does not exceed usize::MAX, ends in the clean panic of the guard.
#[kani::proof]
#[kani::should_panic]
fn c15_consume_too_much_panics() {
    let (cursor, pending_len, amt): (usize, usize, usize) = (kani::any(), kani::any(), kani::any());
    kani::assume(cursor <= pending_len && pending_len <= PAGE_SIZE);
    kani::assume(amt > pending_len - cursor && amt <= usize::MAX - cursor);
    with_rx_state(cursor, pending_len, |c| c.consume(amt));
}

/// SUSPECTED DEFECT (expected to FAIL on the unchanged tree): `consume(amt)` guards with
/// `assert!(self.cursor + amt <= self.pending_len)`; the addition overflows for amt > usize::MAX - cursor.  With
/// overflow checks (debug, and Kani) this is an arithmetic-overflow panic; without them (release profile) the sum
/// wraps, the guard passes and `self.cursor += amt` moves the cursor BACKWARDS: bytes already handed out are handed
/// out again (C15: duplicated).  E.g. cursor = 2, pending_len = 3, amt = usize::MAX: guard 1 <= 3, cursor becomes 1.
/// The harness states the guard's intent: a call that returns has not moved the cursor backwards.
// After the fix (assert!(amt <= pending_len - cursor)) such a call ends in the clean assertion panic; the harness
// is kept for reference and no longer registered (c15_consume_too_much_panics covers the panic).
#[kani::proof]
#[kani::should_panic]
fn c15_defect_consume_overflow() {
    let (cursor, pending_len, amt): (usize, usize, usize) = (kani::any(), kani::any(), kani::any());
    kani::assume(cursor <= pending_len && pending_len <= PAGE_SIZE);
    kani::assume(amt > usize::MAX - cursor);
    with_rx_state(cursor, pending_len, |c| {
        c.consume(amt);
        assert!(c.cursor >= cursor, "C15: consume moved the cursor backwards (bytes will be delivered twice)");
    });
}

/// SUSPECTED DEFECT (expected to FAIL on the unchanged tree): `fmt::Write::write_str("")` passes an empty buffer to
/// `send_bytes` ("Sends one or more bytes"), which hands it to `VirtQueue::add` ("The buffers must not be empty"):
/// `add_direct` stops with `assert_ne!(buffer.len(), 0)` (queue.rs:229), i.e. formatting an empty string to the console
/// (`write!(console, "{}", "")`) panics the driver.  embedded-io `write` guards against this, `write_str` does not.
/// The harness states: writing the empty string returns normally and places nothing on the transmit queue.
#[kani::proof]
#[kani::unwind(20)]
fn c15_defect_write_str_empty() {
    let mut c = mk(0);
    dev_used_push(TXQ, 0, 0, 0);
    let r = core::fmt::Write::write_str(&mut c, "");
    assert!(r.is_ok(), "C15: writing the empty string failed");
    unsafe { assert!(DEV.tx_shares == 0, "C15: a zero-length buffer was placed on the transmit queue"); }
}
