//! Kani harnesses for C12 over the real `src/transport/pci/bus.rs` (child module of
//! `crate::transport::pci::bus`, so private items are visible).  Appended to the scratch copy of bus.rs.
//!
//! The environment is an *executable* copy of the reference PCI function of units/bus.vrs
//! (`CfgSpace::write`): masked BAR registers, command half masked / status half RW1C, a write log that
//! records whether address decoding was enabled at the time of each write.
#![allow(dead_code, missing_docs, clippy::undocumented_unsafe_blocks)]
use super::*;

const DF: DeviceFunction = DeviceFunction { bus: 0, device: 1, function: 2 };
const LOGN: usize = 8;

#[derive(Clone, Copy, PartialEq, Eq)]
struct Wr {
    off: u8,
    data: u32,
    decode_on: bool,
}

/// Reference PCI function (type-0 header): status/command dword + six BARs; every other register reads
/// `other` and ignores writes.
#[derive(Clone)]
struct RefFn {
    cmdsts: u32,
    /// writable bits of the command half
    cmd_mask: u32,
    bars: [u32; 6],
    /// writable bits of each BAR register
    masks: [u32; 6],
    other: u32,
    log: [Wr; LOGN],
    nlog: usize,
    /// let the log wrap around instead of overflowing (harnesses that do not inspect it)
    log_wrap: bool,
    foreign_access: bool,
}

impl RefFn {
    fn any() -> Self {
        RefFn {
            cmdsts: kani::any(),
            cmd_mask: kani::any(),
            bars: kani::any(),
            masks: kani::any(),
            other: kani::any(),
            log: [Wr { off: 0, data: 0, decode_on: false }; LOGN],
            nlog: 0,
            log_wrap: false,
            foreign_access: false,
        }
    }
}

impl ConfigurationAccess for RefFn {
    fn read_word(&self, device_function: DeviceFunction, register_offset: u8) -> u32 {
        assert!(device_function.valid(), "C12: configuration access with an invalid device/function");
        assert!(register_offset & 3 == 0, "C12: unaligned configuration access");
        if device_function != DF {
            return 0xffff_ffff;
        }
        if register_offset == 4 {
            self.cmdsts
        } else if (0x10..0x28).contains(&register_offset) {
            self.bars[usize::from((register_offset - 0x10) / 4)]
        } else {
            self.other
        }
    }

    fn write_word(&mut self, device_function: DeviceFunction, register_offset: u8, data: u32) {
        assert!(device_function.valid(), "C12: configuration access with an invalid device/function");
        assert!(register_offset & 3 == 0, "C12: unaligned configuration access");
        if device_function != DF {
            self.foreign_access = true;
            return;
        }
        if self.nlog >= LOGN {
            assert!(self.log_wrap, "verif: write log overflow");
            self.nlog = 0;
        }
        self.log[self.nlog] = Wr { off: register_offset, data, decode_on: self.cmdsts & 3 != 0 };
        self.nlog += 1;
        if register_offset == 4 {
            let m = self.cmd_mask & 0xffff;
            let old = self.cmdsts;
            self.cmdsts = (data & m) | (old & !m & 0xffff) | (old & 0xffff_0000 & !(data & 0xf900_0000));
        } else if (0x10..0x28).contains(&register_offset) {
            let i = usize::from((register_offset - 0x10) / 4);
            self.bars[i] = (data & self.masks[i]) | (self.bars[i] & !self.masks[i]);
        } else {
            self.foreign_access = true;
        }
    }

    unsafe fn unsafe_clone(&self) -> Self {
        self.clone()
    }
}

/// element-wise comparison (array `==` compiles to a 24-iteration memcmp loop)
fn same6(a: &[u32; 6], b: &[u32; 6]) -> bool {
    a[0] == b[0] && a[1] == b[1] && a[2] == b[2] && a[3] == b[3] && a[4] == b[4] && a[5] == b[5]
}

fn lowest_bit(x: u64) -> u64 {
    x & x.wrapping_neg()
}

/// `bar_wf` of units/bus.vrs: well-formed BAR of power-of-two size with full-width decode
fn bar_wf(v: u32, m: u32, vtop: u32, mtop: u32) -> bool {
    if v & 1 == 1 {
        m & 3 == 0 && v & !m & 0xffff_fffc == 0 && m != 0 && (m | m.wrapping_sub(1)) == 0xffff_ffff
    } else if v & 6 == 4 {
        let am = u64::from(m & 0xffff_fff0) | (u64::from(mtop) << 32);
        m & 0xf == 0 && v & !m & 0xffff_fff0 == 0 && vtop & !mtop == 0 && am != 0 && (am | am.wrapping_sub(1)) == u64::MAX
    } else {
        m & 0xf == 0 && v & !m & 0xffff_fff0 == 0 && m != 0 && (m | m.wrapping_sub(1)) == 0xffff_ffff
    }
}
fn bar_wf_io16(v: u32, m: u32) -> bool {
    v & 1 == 1 && m & 3 == 0 && v & !m & 0xffff_fffc == 0 && m != 0 && (m | m.wrapping_sub(1)) == 0xffff
}

/// The whole C12 `bar_info` contract against the reference function.  `core` excludes the three input
/// classes on which the code as it stands is reported defective (see docs/builders/bus.report.md):
/// S1 64-bit type in slot 5, S2 writable reserved command bits set, S3 I/O BAR with 16-bit decode.
fn bar_info_contract(core: bool) {
    let cam = RefFn::any();
    let i: u8 = kani::any();
    kani::assume(i < 6);
    let iu = usize::from(i);
    let v = cam.bars[iu];
    let m = cam.masks[iu];
    let (vtop, mtop) = if iu < 5 { (cam.bars[iu + 1], cam.masks[iu + 1]) } else { (cam.other, 0) };
    let c0 = cam.cmdsts;
    // the decode enables are not hard-wired to 1 (otherwise decoding cannot be switched off at all)
    kani::assume(c0 & 3 & !cam.cmd_mask == 0);
    let is64 = v & 1 == 0 && v & 6 == 4;
    let s1 = is64 && i >= 5;
    let s2 = c0 & cam.cmd_mask & 0xf880 != 0;
    let s3 = bar_wf_io16(v, m);
    if core {
        kani::assume(!s1 && !s2 && !s3);
    }
    let orig = cam.clone();
    let mut root = PciRoot::new(cam);

    let r = root.bar_info(DF, i);

    let c = &root.configuration_access;
    // (1) registers restored on every path
    if s1 {
        assert!(same6(&c.bars, &orig.bars), "C12: [S1] BAR registers not restored when bar_info fails for a 64-bit type in slot 5");
        assert!(c.cmdsts == orig.cmdsts, "C12: [S1] command register left with decoding disabled when bar_info fails for a 64-bit type in slot 5");
    } else {
        assert!(same6(&c.bars, &orig.bars), "C12: BAR registers not restored");
        if s2 {
            assert!(c.cmdsts == orig.cmdsts, "C12: [S2] command register not restored when a reserved command bit was set");
        } else {
            assert!(c.cmdsts == orig.cmdsts, "C12: command/status register not restored");
        }
    }
    assert!(!c.foreign_access, "C12: write to another function or register");
    // (2) access discipline
    let mut k = 0;
    while k < LOGN {
        if k < c.nlog {
            let e = c.log[k];
            if e.off == 4 {
                assert!(e.data >> 16 == 0, "C12: command write carries status (RW1C) bits");
            } else {
                assert!(!e.decode_on, "C12: BAR written while address decoding is enabled");
                assert!(e.off == 0x10 + 4 * i || (is64 && i < 5 && e.off == 0x14 + 4 * i), "C12: write to a BAR that is not being probed");
            }
        }
        k += 1;
    }
    // (3) result: kind / address / prefetchable / None / Err
    if s1 {
        assert!(r == Err(PciError::InvalidBarType), "C12: 64-bit BAR in the last slot not rejected");
    } else if v == 0 && m == 0 {
        assert!(r == Ok(None), "C12: unimplemented BAR not reported as None");
    } else if v & 1 == 1 {
        match r {
            Ok(Some(BarInfo::IO { address, size })) => {
                assert!(address == v & 0xffff_fffc, "C12: I/O BAR address");
                if bar_wf(v, m, vtop, mtop) {
                    assert!(u64::from(size) == lowest_bit(u64::from(m & 0xffff_fffc)), "C12: I/O BAR size is not the lowest writable address bit");
                }
                if s3 {
                    assert!(u64::from(size) == lowest_bit(u64::from(m & 0xffff_fffc)), "C12: [S3] I/O BAR with 16-bit decode: size is not the lowest writable address bit");
                }
            }
            _ => panic!("C12: I/O BAR not reported as I/O"),
        }
    } else if v & 6 == 6 {
        assert!(r == Err(PciError::InvalidBarType), "C12: reserved memory type not rejected");
    } else {
        match r {
            Ok(Some(BarInfo::Memory { address_type, prefetchable, address, size })) => {
                let t = if v & 6 == 0 { MemoryBarType::Width32 } else if v & 6 == 2 { MemoryBarType::Below1MiB } else { MemoryBarType::Width64 };
                assert!(address_type == t, "C12: memory BAR type");
                assert!(prefetchable == (v & 8 != 0), "C12: memory BAR prefetchable bit");
                let top = if is64 { vtop } else { 0 };
                assert!(address == u64::from(v & 0xffff_fff0) | (u64::from(top) << 32), "C12: memory BAR address");
                if bar_wf(v, m, vtop, mtop) {
                    let am = u64::from(m & 0xffff_fff0) | if is64 { u64::from(mtop) << 32 } else { 0 };
                    assert!(size == lowest_bit(am), "C12: memory BAR size is not the lowest writable address bit");
                }
            }
            _ => panic!("C12: memory BAR not reported as memory"),
        }
    }
}

/// C12 K-complete: `PciRoot::bar_info` on the real code against the reference function, symbolic command
/// value and mask, all six BAR values and masks, slot 0..5 — minus the three reported defect classes.
/// Loops: only the fixed-size flag tables of bitflags (unwind 12) and the 8-entry log scan: complete.
#[kani::proof]
#[kani::unwind(12)]
fn c12_bar_info_core() {
    bar_info_contract(true);
}

/// C12: the same contract over the *whole* domain.  Fails on the tree as it stands exactly with the
/// `[S1]`, `[S2]`, `[S3]` messages (suspected defects, see the report); every other assertion holds.
#[kani::proof]
#[kani::unwind(12)]
fn c12_bar_info_full() {
    bar_info_contract(false);
}

/// C12 K-complete: `PciRoot::bars` against the reference function: registers restored; entry j is the
/// probe result of slot j or None for the upper half of a 64-bit BAR.  Defect classes excluded as above.
#[kani::proof]
#[kani::unwind(12)]
fn c12_bars_core() {
    let mut cam = RefFn::any();
    cam.log_wrap = true; // the log is not inspected here (bar_info's access discipline is c12_bar_info_*)
    kani::assume(cam.cmdsts & 3 & !cam.cmd_mask == 0);
    kani::assume(cam.cmdsts & cam.cmd_mask & 0xf880 == 0); // S2 excluded
    let mut j = 0;
    while j < 6 {
        let v = cam.bars[j];
        kani::assume(!(v & 1 == 0 && v & 6 == 4 && j == 5)); // S1 excluded
        j += 1;
    }
    let orig = cam.clone();
    let mut root = PciRoot::new(cam);
    let r = root.bars(DF);
    let c = &root.configuration_access;
    assert!(same6(&c.bars, &orig.bars) && c.cmdsts == orig.cmdsts && !c.foreign_access, "C12: bars() does not restore the registers");
    if let Ok(b) = r {
        let mut upper = false;
        let mut j = 0;
        while j < 6 {
            let v = orig.bars[j];
            if upper {
                assert!(b[j].is_none(), "C12: upper half of a 64-bit BAR reported as a BAR");
                upper = false;
            } else {
                let is64 = v & 1 == 0 && v & 6 == 4;
                if v == 0 && orig.masks[j] == 0 {
                    assert!(b[j].is_none(), "C12: unimplemented BAR not None in bars()");
                } else {
                    assert!(b[j].is_some(), "C12: implemented BAR missing in bars()");
                    assert!(b[j].as_ref().unwrap().takes_two_entries() == is64, "C12: 64-bit flag in bars()");
                }
                upper = is64;
            }
            j += 1;
        }
    }
}

/// C12 K-complete: `Cam::cam_offset` for both mechanisms over all (bus, device, function, register)
/// pairs of tuples: in window, word aligned, the CAM/ECAM formula, and injective.  Loop-free: complete.
#[kani::proof]
fn c12_cam_offset() {
    let cam = if kani::any() { Cam::MmioCam } else { Cam::Ecam };
    let a = DeviceFunction { bus: kani::any(), device: kani::any(), function: kani::any() };
    let b = DeviceFunction { bus: kani::any(), device: kani::any(), function: kani::any() };
    let ra: u8 = kani::any();
    let rb: u8 = kani::any();
    kani::assume(a.valid() && b.valid() && ra & 3 == 0 && rb & 3 == 0);
    let oa = cam.cam_offset(a, ra);
    let ob = cam.cam_offset(b, rb);
    assert!(oa < cam.size() && ob < cam.size(), "C12: configuration offset outside the access window");
    assert!(oa & 3 == 0, "C12: configuration offset not word aligned");
    let (sh_bus, sh_dev, sh_fn) = match cam { Cam::MmioCam => (16, 11, 8), Cam::Ecam => (20, 15, 12) };
    assert!(
        oa == (u32::from(a.bus) << sh_bus) + (u32::from(a.device) << sh_dev) + (u32::from(a.function) << sh_fn) + u32::from(ra),
        "C12: configuration offset does not follow the CAM/ECAM address formula"
    );
    if a != b || ra != rb {
        assert!(oa != ob, "C12: two configuration addresses share an offset");
        assert!(oa >> 2 != ob >> 2, "C12: two configuration addresses share a word of the window");
    }
}

/// C12 (model validation, R6): the hand-written Verus model of the bitflags types `Status`/`Command`
/// (units/bus.vrs) agrees with the real types on every 16-bit value.  Flag-table loops only: complete.
#[kani::proof]
#[kani::unwind(12)]
fn c12_flags_model() {
    let x: u16 = kani::any();
    let y: u16 = kani::any();
    let c = Command::from_bits_truncate(x);
    let d = Command::from_bits_truncate(y);
    assert!(c.bits() == x & 0x077f, "C12: model of Command::from_bits_truncate");
    assert!(Status::from_bits_truncate(x).bits() == x & 0xf9b8, "C12: model of Status::from_bits_truncate");
    assert!((Command::IO_SPACE | Command::MEMORY_SPACE).bits() == 3, "C12: model of Command union");
    assert!((!(Command::IO_SPACE | Command::MEMORY_SPACE)).bits() == 0x077c, "C12: model of Command complement");
    assert!((c & !(Command::IO_SPACE | Command::MEMORY_SPACE)).bits() == x & 0x077c, "C12: model of Command intersection");
    assert!((c & d).bits() == c.bits() & d.bits() && (c | d).bits() == c.bits() | d.bits(), "C12: model of Command & |");
    assert!((c != d) == (c.bits() != d.bits()), "C12: model of Command equality");
    assert!(Status::from_bits_truncate(x).contains(Status::CAPABILITIES_LIST) == (x & 0x10 != 0), "C12: model of Status::contains");
    let w: u32 = c.bits().into();
    assert!(w == u32::from(x & 0x077f) && w >> 16 == 0, "C12: command value zero-extends");
}

/// C12 K-complete: `get_status_command` / `set_command` on the reference function, any dword, any mask.
#[kani::proof]
#[kani::unwind(12)]
fn c12_status_command() {
    let cam = RefFn::any();
    let c0 = cam.cmdsts;
    let cm = cam.cmd_mask;
    let orig_bars = cam.bars;
    let mut root = PciRoot::new(cam);
    let (st, cmd) = root.get_status_command(DF);
    assert!(u32::from(st.bits()) == (c0 >> 16) & 0xf9b8, "C12: status half decoded wrongly");
    assert!(u32::from(cmd.bits()) == c0 & 0xffff, "C12: command half decoded wrongly (all 16 bits are kept)");
    let newc = Command::from_bits_truncate(kani::any());
    root.set_command(DF, newc);
    let c = &root.configuration_access;
    assert!(c.nlog == 1 && c.log[0].off == 4 && c.log[0].data == u32::from(newc.bits()), "C12: set_command is not one write of the command value");
    assert!(c.cmdsts & 0xffff_0000 == c0 & 0xffff_0000, "C12: set_command changed (cleared) status bits");
    assert!(c.cmdsts & 0xffff == (u32::from(newc.bits()) & cm & 0xffff) | (c0 & !cm & 0xffff), "C12: set_command: command half");
    assert!(same6(&c.bars, &orig_bars) && !c.foreign_access, "C12: set_command touched another register");
}

// ---------------------------------------------------------------------------
// Capability walking
// ---------------------------------------------------------------------------

/// a function whose whole 256-byte configuration space is an array of 64 dwords (read-only here)
#[derive(Clone)]
struct Space {
    w: [u32; 64],
}
impl ConfigurationAccess for Space {
    fn read_word(&self, device_function: DeviceFunction, register_offset: u8) -> u32 {
        assert!(device_function.valid(), "C12: configuration access with an invalid device/function");
        assert!(register_offset & 3 == 0, "C12: unaligned configuration access");
        if device_function != DF { 0xffff_ffff } else { self.w[usize::from(register_offset >> 2)] }
    }
    fn write_word(&mut self, _device_function: DeviceFunction, _register_offset: u8, _data: u32) {
        panic!("C12: capability walking / enumeration must not write configuration space");
    }
    unsafe fn unsafe_clone(&self) -> Self {
        self.clone()
    }
}

/// C12 K-complete: one `CapabilityIterator::next` step from any (aligned) pending offset over any header
/// word: decodes id / private header, follows a well-formed link, ends at 0, and never continues into
/// the 64-byte header or to an unaligned offset whatever the device says.  Loop-free: complete.
#[kani::proof]
#[kani::unwind(12)]
fn c12_cap_next_step() {
    let sp = Space { w: kani::any() };
    let off: u8 = kani::any();
    kani::assume(off & 3 == 0);
    let pending: Option<u8> = if kani::any() { Some(off) } else { None };
    let mut it = CapabilityIterator { configuration_access: &sp, device_function: DF, next_capability_offset: pending };
    let r = it.next();
    match pending {
        None => assert!(r.is_none() && it.next_capability_offset.is_none(), "C12: exhausted capability iterator yields something"),
        Some(o) => {
            let h = sp.w[usize::from(o >> 2)];
            let n = ((h >> 8) & 0xff) as u8;
            assert!(
                r == Some(CapabilityInfo { offset: o, id: (h & 0xff) as u8, private_header: (h >> 16) as u16 }),
                "C12: capability header decoded wrongly"
            );
            if n == 0 {
                assert!(it.next_capability_offset.is_none(), "C12: capability list does not end at a zero link");
            } else if n >= 64 && n & 3 == 0 {
                assert!(it.next_capability_offset == Some(n), "C12: well-formed capability link not followed");
            }
            if let Some(p) = it.next_capability_offset {
                assert!(p >= 64 && p & 3 == 0, "C12: capability walk continues at a malformed offset");
            }
        }
    }
}

/// C12 bounded stand-in (list length 3): `capabilities()` + `next()` over a well-formed three-node list
/// at symbolic, distinct offsets with symbolic contents (reserved low bits of the capabilities pointer
/// symbolic): yields the three capabilities once each, in list order, then None.
#[kani::proof]
#[kani::unwind(12)]
fn c12_cap_walk3() {
    let sp = Space { w: kani::any() };
    let o: [u8; 3] = kani::any();
    kani::assume(o[0] >= 64 && o[1] >= 64 && o[2] >= 64);
    kani::assume(o[0] & 3 == 0 && o[1] & 3 == 0 && o[2] & 3 == 0);
    kani::assume(o[0] != o[1] && o[1] != o[2] && o[0] != o[2]);
    let hdr = |k: usize| sp.w[usize::from(o[k] >> 2)];
    kani::assume(sp.w[1] & 0x0010_0000 != 0); // status: CAPABILITIES_LIST
    kani::assume((sp.w[0x34 >> 2] & 0xfc) as u8 == o[0]);
    kani::assume((hdr(0) >> 8) as u8 == o[1] && (hdr(1) >> 8) as u8 == o[2] && (hdr(2) >> 8) as u8 == 0);
    let root = PciRoot::new(sp.clone());
    let mut it = root.capabilities(DF);
    let mut k = 0;
    while k < 3 {
        let h = hdr(k);
        assert!(
            it.next() == Some(CapabilityInfo { offset: o[k], id: h as u8, private_header: (h >> 16) as u16 }),
            "C12: capability walk does not yield the list in order"
        );
        k += 1;
    }
    assert!(it.next().is_none(), "C12: capability walk yields more than the list");
}

/// C12 K-complete: a function without the CAPABILITIES_LIST status bit has no capabilities, whatever
/// register 0x34 holds.
#[kani::proof]
#[kani::unwind(12)]
fn c12_cap_none() {
    let sp = Space { w: kani::any() };
    kani::assume(sp.w[1] & 0x0010_0000 == 0);
    let root = PciRoot::new(sp);
    let mut it = root.capabilities(DF);
    assert!(it.next().is_none(), "C12: capabilities reported although the status bit is clear");
}

// ---------------------------------------------------------------------------
// Bus enumeration
// ---------------------------------------------------------------------------

/// a bus with an arbitrary population: bit `function` of `present[device]`; present functions answer
/// with `id` / `class` / `hdr`, absent ones with all ones
#[derive(Clone)]
struct Bus {
    bus: u8,
    present: [u8; 32],
    id: u32,
    class: u32,
    hdr: u32,
}
impl Bus {
    fn has(&self, device: u8, function: u8) -> bool {
        self.present[usize::from(device)] >> function & 1 == 1
    }
}
impl ConfigurationAccess for Bus {
    fn read_word(&self, device_function: DeviceFunction, register_offset: u8) -> u32 {
        assert!(device_function.valid(), "C12: configuration access with an invalid device/function");
        assert!(register_offset & 3 == 0, "C12: unaligned configuration access");
        assert!(device_function.bus == self.bus, "C12: enumeration leaves the bus");
        if !self.has(device_function.device, device_function.function) {
            return 0xffff_ffff;
        }
        match register_offset {
            0 => self.id,
            8 => self.class,
            12 => self.hdr,
            _ => 0,
        }
    }
    fn write_word(&mut self, _device_function: DeviceFunction, _register_offset: u8, _data: u32) {
        panic!("C12: capability walking / enumeration must not write configuration space");
    }
    unsafe fn unsafe_clone(&self) -> Self {
        self.clone()
    }
}

/// One `BusDeviceIterator::next` step against the reference "first present function at or after the
/// position".  `window`: None = the whole bus; Some(w) = populations with a present function within the
/// next w positions, or positions within w of the end of the bus (so both loops run <= w times).
fn bus_next_contract(window: Option<u16>) {
    let b = Bus { bus: kani::any(), present: kani::any(), id: kani::any(), class: kani::any(), hdr: kani::any() };
    kani::assume(b.id & 0xffff != 0xffff); // a present function has a valid vendor id
    let dev: u8 = kani::any();
    let func: u8 = kani::any();
    kani::assume(dev <= 32 && func < 8 && (dev < 32 || func == 0));
    let start = u16::from(dev) * 8 + u16::from(func);
    // reference: first present position >= start (256 = none)
    let end: u16 = match window { None => 256, Some(w) => if start + w < 256 { start + w } else { 256 } };
    let mut first: u16 = 256;
    let mut p: u16 = end;
    while p > start {
        p -= 1;
        if b.has((p / 8) as u8, (p % 8) as u8) {
            first = p;
        }
    }
    if end < 256 {
        kani::assume(first < 256);
    }
    let mut it = BusDeviceIterator { configuration_access: b.clone(), next: DeviceFunction { bus: b.bus, device: dev, function: func } };
    let r = it.next();
    match r {
        None => {
            assert!(first == 256, "C12: a present function was not reported");
            assert!(it.next.device >= 32, "C12: iterator not exhausted after None");
        }
        Some((df, info)) => {
            assert!(first < 256, "C12: an absent function was reported");
            assert!(df.bus == b.bus && u16::from(df.device) * 8 + u16::from(df.function) == first, "C12: not the next present function in ascending order");
            assert!(u16::from(it.next.device) * 8 + u16::from(it.next.function) == first + 1 && it.next.function < 8 && it.next.bus == b.bus, "C12: iterator not positioned just behind the reported function");
            assert!(info.vendor_id == (b.id & 0xffff) as u16 && info.device_id == (b.id >> 16) as u16, "C12: vendor/device id decoded wrongly");
            assert!(
                info.class == (b.class >> 24) as u8 && info.subclass == ((b.class >> 16) & 0xff) as u8
                    && info.prog_if == ((b.class >> 8) & 0xff) as u8 && info.revision == (b.class & 0xff) as u8,
                "C12: class/subclass/prog-if/revision decoded wrongly"
            );
            let ht = ((b.hdr >> 16) & 0x7f) as u8;
            let want = match ht { 0 => HeaderType::Standard, 1 => HeaderType::PciPciBridge, 2 => HeaderType::PciCardbusBridge, x => HeaderType::Unrecognised(x) };
            assert!(info.header_type == want, "C12: header type decoded wrongly");
        }
    }
}

/// C12 K-complete for one step: `BusDeviceIterator::next` from *every* iterator position over *every*
/// population of the bus (2^256 populations): returns the first present function at or after the
/// position with the identity fields decoded per the header layout, leaves the iterator just behind it;
/// None iff nothing present remains.  By induction over calls this is "exactly the functions present,
/// ascending, once each".  The loops (<= 256 iterations) are fully unwound: complete.  (~8 min)
#[kani::proof]
#[kani::unwind(260)]
fn c12_bus_next() {
    bus_next_contract(None);
}

/// C12 bounded stand-in of `c12_bus_next` (gap <= 12): every position, every population in which the next
/// present function is at most 12 positions away, or the position is within 12 of the end of the bus.
#[kani::proof]
#[kani::unwind(14)]
fn c12_bus_next_gap12() {
    bus_next_contract(Some(12));
}

/// C12 K-complete: `enumerate_bus` starts at device 0 function 0 of the requested bus.
#[kani::proof]
fn c12_enumerate_start() {
    let b = Bus { bus: kani::any(), present: kani::any(), id: kani::any(), class: kani::any(), hdr: kani::any() };
    let root = PciRoot::new(b.clone());
    let bus: u8 = kani::any();
    let it = root.enumerate_bus(bus);
    assert!(it.next == DeviceFunction { bus, device: 0, function: 0 }, "C12: enumeration does not start at 00.0");
    let d: u8 = kani::any();
    kani::assume(d < 32);
    assert!(it.configuration_access.present[usize::from(d)] == b.present[usize::from(d)] && it.configuration_access.bus == b.bus, "C12: enumeration uses a different configuration space");
}

// ---------------------------------------------------------------------------
// Concrete demonstrations of the three suspected defects (docs/builders/bus.report.md).  These assert the
// *observed* faulty outcome for one concrete input each: they PASS on a tree that has the defect and fail
// once it is repaired.  Not part of any property configuration.
// ---------------------------------------------------------------------------
fn demo_fn(cmdsts: u32, bar_slot: usize, bar: u32, mask: u32) -> RefFn {
    let mut bars = [0u32; 6];
    let mut masks = [0u32; 6];
    bars[bar_slot] = bar;
    masks[bar_slot] = mask;
    RefFn { cmdsts, cmd_mask: 0xffff, bars, masks, other: 0, log: [Wr { off: 0, data: 0, decode_on: false }; LOGN], nlog: 0, log_wrap: false, foreign_access: false }
}

/// S1: BAR5 = 0x0000_0004 (64-bit memory type in the last slot), command = 0x0003.
#[kani::proof]
#[kani::unwind(12)]
fn c12_demo_s1_slot5_64bit() {
    let mut root = PciRoot::new(demo_fn(0x0000_0003, 5, 0x0000_0004, 0xffff_fff0));
    let r = root.bar_info(DF, 5);
    assert!(r == Err(PciError::InvalidBarType));
    assert!(root.configuration_access.bars[5] == 0xffff_fff4, "BAR5 is left holding the sizing pattern");
    assert!(root.configuration_access.cmdsts == 0x0000_0000, "I/O and memory decoding are left disabled");
}

/// S2: command = 0x0083 (I/O + memory enabled, bit 7 set and writable), BAR0 = 4 KiB 32-bit memory BAR.
#[kani::proof]
#[kani::unwind(12)]
fn c12_demo_s2_reserved_command_bit() {
    let mut root = PciRoot::new(demo_fn(0x0000_0083, 0, 0x0000_0000, 0xffff_f000));
    let r = root.bar_info(DF, 0);
    assert!(r == Ok(Some(BarInfo::Memory { address_type: MemoryBarType::Width32, prefetchable: false, address: 0, size: 0x1000 })));
    assert!(root.configuration_access.cmdsts == 0x0000_0003, "command bit 7 was cleared by the probe");
}

/// S3: BAR0 = 0x0000_0001 with writable bits 0x0000_ff00: a 256-byte I/O BAR whose upper 16 address bits are
/// hard-wired to zero (PCI 3.0 section 6.2.5.1).
#[kani::proof]
#[kani::unwind(12)]
fn c12_demo_s3_io16() {
    let mut root = PciRoot::new(demo_fn(0x0000_0000, 0, 0x0000_0001, 0x0000_ff00));
    let r = root.bar_info(DF, 0);
    assert!(r == Ok(Some(BarInfo::IO { address: 0, size: 0xffff_0100 })), "size reported as 0xffff0100 instead of 0x100");
    assert!(root.configuration_access.bars[0] == 0x0000_0001 && root.configuration_access.cmdsts == 0);
}
