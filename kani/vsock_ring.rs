//! Kani harnesses over the real `RingBuffer` / `Connection` / `get_connection` / `VsockConnectionManager::recv`
//! (child module of `crate::device::socket::connectionmanager`, so the private items are visible).
//! Appended to the scratch copy of src/device/socket/connectionmanager.rs.
#![allow(dead_code, missing_docs, clippy::undocumented_unsafe_blocks)]
use super::*;
use crate::verif_support::*;
use crate::Error;

/// the i-th buffered byte of the real ring buffer (reference reading of the representation)
fn ring_at(rb: &RingBuffer, i: usize) -> u8 {
    rb.buffer[(rb.start + i) % rb.buffer.len()]
}

/// a ring buffer of capacity CAP in an arbitrary reachable representation state
fn any_ring<const CAP: usize>() -> RingBuffer {
    let mut rb = RingBuffer::new(CAP);
    assert!(rb.buffer.len() == CAP && rb.used() == 0 && rb.is_empty() && rb.free() == CAP, "C17: RingBuffer::new");
    let start: usize = kani::any();
    let used: usize = kani::any();
    kani::assume(start < CAP && used <= CAP);
    rb.start = start;
    rb.used = used;
    let mut i = 0;
    while i < CAP {
        rb.buffer[i] = kani::any();
        i += 1;
    }
    rb
}

const MAXN: usize = 4;

/// K<= bounded stand-in (capacity CAP <= 4, one add of 0..=4 bytes then one drain into 0..=4 bytes, from an
/// arbitrary start/used/content state incl. wrap-around): the real RingBuffer is a FIFO of bytes.
fn ring_fifo<const CAP: usize>() {
    let mut rb = any_ring::<CAP>();
    // abstract value before
    let used0 = rb.used;
    let mut model = [0u8; 2 * MAXN];
    let mut i = 0;
    while i < used0 {
        model[i] = ring_at(&rb, i);
        i += 1;
    }
    let data: [u8; MAXN] = kani::any();
    let n: usize = kani::any();
    kani::assume(n <= MAXN);
    let fits = n <= CAP - used0;
    assert!(rb.free() == CAP - used0 && rb.used() == used0, "C17: used()/free()");
    let ok = match n {
        0 => rb.add(&data[..0]),
        1 => rb.add(&data[..1]),
        2 => rb.add(&data[..2]),
        3 => rb.add(&data[..3]),
        _ => rb.add(&data[..4]),
    };
    assert!(ok == fits, "C17: add must succeed exactly when the bytes fit");
    let mut len = used0;
    if ok {
        let mut j = 0;
        while j < n {
            model[len] = data[j];
            len += 1;
            j += 1;
        }
    }
    assert!(rb.used() == len && rb.buffer.len() == CAP, "C17: add changed the byte count wrongly");
    let mut i = 0;
    while i < len {
        assert!(ring_at(&rb, i) == model[i], "C17: add lost, reordered or overwrote buffered bytes");
        i += 1;
    }
    // drain into k bytes
    let mut out = [0xa5u8; MAXN];
    let k: usize = kani::any();
    kani::assume(k <= MAXN);
    let r = match k {
        0 => rb.drain(&mut out[..0]),
        1 => rb.drain(&mut out[..1]),
        2 => rb.drain(&mut out[..2]),
        3 => rb.drain(&mut out[..3]),
        _ => rb.drain(&mut out[..4]),
    };
    let want = if len < k { len } else { k };
    assert!(r == want, "C17: drain must return min(buffered, out.len())");
    assert!(rb.used() == len - r && rb.start < CAP, "C17: drain bookkeeping");
    let mut i = 0;
    while i < MAXN {
        if i < r {
            assert!(out[i] == model[i], "C17: drain returned bytes other than the oldest buffered ones, in order");
        } else {
            assert!(out[i] == 0xa5, "C17: drain wrote beyond the bytes it reports");
        }
        i += 1;
    }
    let mut i = 0;
    while i < len - r {
        assert!(ring_at(&rb, i) == model[r + i], "C17: drain disturbed the remaining bytes");
        i += 1;
    }
}

#[kani::proof]
#[kani::unwind(10)]
fn k17_ring_fifo_cap1() { ring_fifo::<1>(); }
#[kani::proof]
#[kani::unwind(10)]
fn k17_ring_fifo_cap3() { ring_fifo::<3>(); }
#[kani::proof]
#[kani::unwind(10)]
fn k17_ring_fifo_cap4() { ring_fifo::<4>(); }

/// D8 witness: a per-connection capacity of 0 is accepted by `new_with_capacity`; reading from such a
/// connection divides by zero.  FAILS on a tree with D8.
#[kani::proof]
#[kani::unwind(4)]
fn c17_d8_ring_capacity_zero() {
    let mut rb = RingBuffer::new(0);
    let mut out = [0u8; 1];
    let r = rb.drain(&mut out);
    assert!(r == 0, "C17: nothing to read from an empty buffer");
    assert!(rb.add(&[]), "C17: adding nothing always fits");
}

/// K∎ for capacity 4 (complete over peer / port): `Connection::new` advertises exactly its buffer.
#[kani::proof]
#[kani::unwind(6)]
fn c17_connection_new() {
    let peer = VsockAddr { cid: kani::any(), port: kani::any() };
    let port: u32 = kani::any();
    let c = Connection::new(peer, port, 4);
    assert!(c.info.buf_alloc == 4 && c.buffer.buffer.len() == 4 && c.buffer.used() == 0 && c.buffer.free() == 4, "C17: advertised allocation is not the buffer capacity");
    assert!(c.info.dst == peer && c.info.src_port == port, "C17: connection addressing");
    assert!(!c.established && !c.peer_requested_shutdown, "C18: initial connection state");
    let mut ci = c.info.clone();
    ci.buf_alloc = 0;
    assert!(ci == ConnectionInfo::new(peer, port), "C17: new connection has non-zero counters");
}

fn conn(cid: u64, rport: u32, lport: u32) -> Connection {
    Connection::new(VsockAddr { cid, port: rport }, lport, 4)
}

/// K<= bounded stand-in (tables of 0..=3 connections with symbolic addresses): `get_connection` returns the FIRST
/// connection with this peer address and local port, its index, or NotConnected (validates the Verus stub).
#[kani::proof]
#[kani::unwind(6)]
fn k18_get_connection() {
    let len: usize = kani::any();
    kani::assume(len <= 3);
    let mut v: Vec<Connection> = Vec::new();
    let mut keys = [(0u64, 0u32, 0u32); 3];
    let mut i = 0;
    while i < len {
        keys[i] = (kani::any(), kani::any(), kani::any());
        v.push(conn(keys[i].0, keys[i].1, keys[i].2));
        i += 1;
    }
    let peer = VsockAddr { cid: kani::any(), port: kani::any() };
    let lport: u32 = kani::any();
    let mut first = len;
    let mut i = len;
    while i > 0 {
        i -= 1;
        if keys[i].0 == peer.cid && keys[i].1 == peer.port && keys[i].2 == lport {
            first = i;
        }
    }
    match get_connection(&mut v, peer, lport) {
        Ok((idx, c)) => {
            assert!(first < len && idx == first, "C18: get_connection did not return the first matching connection");
            assert!(c.info.dst == peer && c.info.src_port == lport, "C18: get_connection returned a foreign connection");
        }
        Err(e) => {
            assert!(first == len, "C18: existing connection reported as not connected");
            assert!(e == SocketError::NotConnected, "C18: wrong error for an unknown connection");
        }
    }
}

/// A manager of which only the connection table exists (`driver` is left uninitialised: the ordinary `recv`
/// path never touches it).
struct TableOnly(core::mem::MaybeUninit<VsockConnectionManager<KHal, KTransport, 64>>);
impl TableOnly {
    fn new(connections: Vec<Connection>) -> Self {
        let mut m = core::mem::MaybeUninit::<VsockConnectionManager<KHal, KTransport, 64>>::uninit();
        unsafe {
            let p = m.as_mut_ptr();
            core::ptr::addr_of_mut!((*p).connections).write(connections);
            core::ptr::addr_of_mut!((*p).listening_ports).write(Vec::new());
            core::ptr::addr_of_mut!((*p).per_connection_buffer_capacity).write(4);
        }
        TableOnly(m)
    }
    fn mgr(&mut self) -> &mut VsockConnectionManager<KHal, KTransport, 64> {
        unsafe { &mut *self.0.as_mut_ptr() }
    }
}

/// K<= bounded stand-in (two connections of capacity 4, arbitrary buffer state, one read of 3 bytes; forward
/// counter anywhere below the wrap, see D2): `recv` hands out the oldest bytes in order, advances fwd_cnt by
/// exactly that many, keeps buf_alloc == capacity, and touches no other connection.
#[kani::proof]
#[kani::unwind(10)]
fn k17_recv_credit() {
    let a = VsockAddr { cid: 3, port: 7 };
    let b = VsockAddr { cid: kani::any(), port: kani::any() };
    kani::assume(b.cid != a.cid || b.port != a.port);
    let mut c0 = Connection::new(b, 9, 4);
    c0.buffer = any_ring::<4>();
    let mut c1 = Connection::new(a, 9, 4);
    c1.buffer = any_ring::<4>();
    // fwd_cnt is private to vsock.rs: it is set and observed through the public `done_forwarding` / `==`
    let fwd0: u32 = kani::any();
    kani::assume(fwd0 <= u32::MAX - 4);
    c1.info.done_forwarding(fwd0 as usize);
    c1.established = true;
    let info0 = c1.info.clone();
    let other0 = c0.info.clone();
    let used0 = c1.buffer.used();
    let (o_start, o_used) = (c0.buffer.start, c0.buffer.used);
    let mut model = [0u8; 4];
    let mut i = 0;
    while i < used0 {
        model[i] = ring_at(&c1.buffer, i);
        i += 1;
    }
    let mut v = Vec::new();
    v.push(c0);
    v.push(c1);
    let mut holder = TableOnly::new(v);
    let m = holder.mgr();
    let mut out = [0u8; 3];
    let r = m.recv(a, 9, &mut out);
    let n = if used0 < 3 { used0 } else { 3 };
    assert!(r == Ok(n), "C17: recv must return min(buffered, buffer.len())");
    let mut i = 0;
    while i < n {
        assert!(out[i] == model[i], "C17: bytes read are not the bytes received, in order");
        i += 1;
    }
    assert!(m.connections.len() == 2, "C18: recv removed a connection that was not shut down");
    let c = &m.connections[1];
    let mut want = info0.clone();
    want.done_forwarding(n);
    assert!(c.info == want, "C17: fwd_cnt not advanced by exactly the bytes handed to the client (or other credit state changed)");
    assert!(c.info.buf_alloc == 4 && c.buffer.buffer.len() == 4, "C17: advertised allocation no longer equals the buffer capacity");
    assert!(c.buffer.used() == used0 - n && c.buffer.free() == 4 - (used0 - n), "C17: advertised credit is not backed by free space");
    let o = &m.connections[0];
    assert!(o.buffer.start == o_start && o.buffer.used == o_used && o.info == other0, "C18: recv touched another connection");
    // no connection uses local port 10
    assert!(m.recv(a, 10, &mut out) == Err(Error::SocketDeviceError(SocketError::NotConnected)), "C18: unknown connection must be 'not connected'");
}
