//! C13 Kani harnesses on the real `VirtIOBlk::new` capacity read and the `BlkConfig` layout
//! (child module of `crate::device::blk`, appended to the scratch copy of src/device/blk.rs).
#![allow(dead_code, missing_docs, clippy::undocumented_unsafe_blocks)]
use super::*;
use crate::transport::DeviceType;
use crate::verif_support::KHal;

#[path = "/verif/kani/config_script.rs"]
mod script;
use script::*;

/// C13 K (loop-free, complete): the constants `BlkConfig::OFF_*` of the Verus unit equal `offset_of!` on the
/// real struct, the fields are 4-byte aligned u32 registers, and `read_config!` produces exactly one
/// `read_config_space::<u32>` at that offset.
#[kani::proof]
#[kani::unwind(14)]
fn c13_offsets_blk() {
    assert!(core::mem::offset_of!(BlkConfig, capacity_low) == 0, "C13: offset_of!(BlkConfig, capacity_low) != 0");
    assert!(core::mem::offset_of!(BlkConfig, capacity_high) == 4, "C13: offset_of!(BlkConfig, capacity_high) != 4");
    assert!(size_of::<ReadOnly<u32>>() == 4 && align_of::<ReadOnly<u32>>() == 4, "C13: ReadOnly<u32> is not a 4-byte, 4-aligned register");
    let t = ScriptT::any(DeviceType::Block);
    let lo: u32 = read_config!(t, BlkConfig, capacity_low).unwrap();
    let hi: u32 = read_config!(t, BlkConfig, capacity_high).unwrap();
    assert!(t.time() == 2 && t.acc_at(0) == Acc::Read(0, 4) && t.acc_at(1) == Acc::Read(4, 4), "C13: read_config! accesses differ from (0,4),(4,4)");
    assert!(lo == t.u32_at(0, 0) && hi == t.u32_at(1, 4), "C13: read_config! value differs from the device bytes");
}

/// C13 K<= (BOUND: STEPS = 12 scripted accesses = up to 3 iterations; queue of 16 entries built by the real
/// constructor; unwind 40 = the 33-entry bitflags table of from_bits_truncate): the capacity stored by the real `VirtIOBlk::new` equals `low | high << 32` of ONE
/// configuration the device exposed, for every placement of configuration changes between the register
/// reads, given that the device bumps the generation on every change.
#[kani::proof]
#[kani::unwind(40)]
fn c13_blk_capacity_untorn() {
    let t = ScriptT::any(DeviceType::Block);
    t.assume_honours_generation();
    let cfg = t.cfg;
    let gener = t.gener;
    let blk = VirtIOBlk::<KHal, ScriptT>::new(t).unwrap();
    let n = blk.transport.time();
    assert!(n >= 4 && n % 4 == 0, "C13: unexpected number of configuration accesses in VirtIOBlk::new");
    let k = n - 4;
    assert!(gener[k] == gener[n - 1], "C13: accepted iteration not bracketed by equal generations");
    let one = (u32::from_le_bytes([cfg[k][0], cfg[k][1], cfg[k][2], cfg[k][3]]) as u64)
        | ((u32::from_le_bytes([cfg[k][4], cfg[k][5], cfg[k][6], cfg[k][7]]) as u64) << 32);
    assert!(blk.capacity() == one, "C13: torn capacity: halves come from two configuration generations");
    core::mem::forget(blk);
}
