//! Kani harnesses over the real input driver (child module of `crate::device::input`, so the private fields of
//! `VirtIOInput`, the private constants and the private fields of `VirtQueue` are visible).  Appended to the scratch
//! copy of src/device/input.rs.  Second back end for the Verus unit `input` (C19 / C07).
//!
//! * `c19_input_event_layout`, `c19_input_slot_identity`: loop-free over full-domain symbolic inputs: COMPLETE proofs.
//!   They validate the contract stubs of units/input.vrs (`EventRef::read`, `EventRef::as_mut_bytes`,
//!   `EventBuf::slot`, `SIZE_OF_INPUT_EVENT`, `QUEUE_SIZE`, `QUEUE_EVENT`) against the real types.
//! * `c07_input_slot_oob_panics`: complete (every index 32..=65535): Rust's bounds check at `event_buf[i]` is a panic.
//! * `c07_input_token_oob_witness`: demonstrates the SUSPECTED DEFECT of docs/builders/input.report.md on the real
//!   `pop_pending_event` (expected to FAIL; NOT part of the quick/thorough lists).
//!
//! No scenario harness (stock 32 buffers, complete some, poll) is offered: `QUEUE_SIZE` is the constant 32 and two
//! 32-entry queues with 32 posted buffers exhaust CBMC's memory (see kani/init.rs `k08_new_input`); the unbounded
//! claim rests on the Verus unit, the queue underneath has its own SIZE=4 scenario harnesses (kani/queue.rs,
//! kani/owning.rs).
#![allow(dead_code, missing_docs, clippy::undocumented_unsafe_blocks, static_mut_refs)]
extern crate alloc;
use super::*;
use crate::transport::DeviceType;
use crate::verif_support::{log_at, log_len, Ev, KTransport};
// the reference device shared with the C20 harnesses (sees only DMA memory and HAL calls; the private fields of
// `VirtQueue` are not visible from `crate::device::input`)
#[path = "/verif/kani/cmd_dev.rs"]
mod dev;
use dev::*;

/// DMA allocation numbers (modern layout, allocation order of `VirtQueue::new`): event queue = 0 (descriptors +
/// available ring) and 1 (used ring); status queue = 2 and 3
const EVQ_DESC_DMA: usize = 0;
const EVQ_USED_DMA: usize = 1;

/// the driver value assembled from its parts: two real `VirtQueue::new`, the boxed event table, NO buffers posted
/// (`VirtIOInput::new` with its 32 adds is beyond CBMC here, see the module comment)
fn mk_unstocked() -> VirtIOInput<DHal, KTransport> {
    dev_reset();
    let mut transport = KTransport::new(DeviceType::Input);
    let event_queue = VirtQueue::<DHal, QUEUE_SIZE>::new(&mut transport, QUEUE_EVENT, false, false, false).unwrap();
    let status_queue = VirtQueue::<DHal, QUEUE_SIZE>::new(&mut transport, QUEUE_STATUS, false, false, false).unwrap();
    let event_buf = Box::new([InputEvent::default(); QUEUE_SIZE]);
    VirtIOInput::<DHal, KTransport> { transport, event_queue, status_queue, event_buf }
}

/// C19 stub validation (loop-free, complete over all 2^64 byte patterns): `InputEvent` is 8 bytes; the bytes
/// `as_mut_bytes()` exposes are the little-endian image of (event_type: le16, code: le16, value: le32) as laid out by
/// VirtIO 1.x 5.8.6 `struct virtio_input_event`, so that `*event` after the device wrote `b` is `event_of(b)`.
/// Also pins the constants the unit copies.
#[kani::proof]
fn c19_input_event_layout() {
    assert!(size_of::<InputEvent>() == 8, "C19: size_of::<InputEvent>() is not 8");
    assert!(QUEUE_SIZE == 32 && QUEUE_EVENT == 0, "C19: input queue constants");
    let b: [u8; 8] = kani::any();
    let mut ev = InputEvent::default();
    {
        let bytes = ev.as_mut_bytes();
        assert!(bytes.len() == 8, "C19: as_mut_bytes() of an InputEvent is not 8 bytes");
        // what the device does: writes the buffer that was posted
        bytes[0] = b[0]; bytes[1] = b[1]; bytes[2] = b[2]; bytes[3] = b[3];
        bytes[4] = b[4]; bytes[5] = b[5]; bytes[6] = b[6]; bytes[7] = b[7];
    }
    let copy = ev;
    assert!(copy.event_type == b[0] as u16 + 256 * (b[1] as u16), "C19: event_type is not the le16 at offset 0");
    assert!(copy.code == b[2] as u16 + 256 * (b[3] as u16), "C19: code is not the le16 at offset 2");
    assert!(
        copy.value == b[4] as u32 + 256 * (b[5] as u32) + 65536 * (b[6] as u32) + 16777216 * (b[7] as u32),
        "C19: value is not the le32 at offset 4"
    );
}

/// C19 stub validation (loop-free, complete over all pairs of indices < 32): the buffer handed to the queue for slot
/// `i`, `(&mut event_buf[i]).as_mut_bytes()`, is the 8-byte range at `base + 8*i` of the one heap allocation - a
/// function of (allocation, i) only (`evbuf_nn`), the same on every evaluation, disjoint for different slots.
#[kani::proof]
fn c19_input_slot_identity() {
    let mut event_buf: Box<[InputEvent; 32]> = Box::new([InputEvent::default(); QUEUE_SIZE]);
    let base = event_buf.as_ptr() as usize;
    let i: usize = kani::any();
    let j: usize = kani::any();
    kani::assume(i < 32 && j < 32);
    let (pi, li) = {
        let e = &mut event_buf[i];
        let s = e.as_mut_bytes();
        (s.as_mut_ptr() as usize, s.len())
    };
    let (pj, lj) = {
        let e = &mut event_buf[j];
        let s = e.as_mut_bytes();
        (s.as_mut_ptr() as usize, s.len())
    };
    let (pi2, _) = {
        let e = &mut event_buf[i];
        let s = e.as_mut_bytes();
        (s.as_mut_ptr() as usize, s.len())
    };
    assert!(li == 8 && lj == 8, "C19: a slot's buffer is not 8 bytes");
    assert!(pi == base + 8 * i && pj == base + 8 * j, "C19: slot i is not the range base + 8*i");
    assert!(pi == pi2, "C19: the same slot gives a different buffer on a second evaluation");
    assert!(i == j || pi + 8 <= pj || pj + 8 <= pi, "C19: buffers of different slots overlap");
}

/// C07 (complete over every u16 id >= 32): `&mut event_buf[id as usize]` is a Rust bounds-check panic for every id
/// outside the table - what `EventBuf::slot_checked` states, and what `EventBuf::slot` demands to be unreachable.
#[kani::proof]
#[kani::should_panic]
fn c07_input_slot_oob_panics() {
    let mut event_buf: Box<[InputEvent; 32]> = Box::new([InputEvent::default(); QUEUE_SIZE]);
    let id: u16 = kani::any();
    kani::assume(id >= 32);
    let e = &mut event_buf[id as usize];
    // not reached
    e.value = 1;
}

/// SUSPECTED DEFECT witness (C07; expected to FAIL on the unchanged tree; in no tier list).
/// A device that puts an id >= 32 into the used ring of the event queue makes `pop_pending_event` panic at
/// `self.event_buf[token as usize]` (input.rs:75) - before `pop_used` could reject the id with `WrongToken`.
/// No buffer needs to be posted for this: the index happens before anything else looks at the queue.
/// Bound: id is any u16 >= 32; used index 1, used length 8; fresh 32-entry queues.
#[kani::proof]
#[kani::unwind(40)]
fn c07_input_token_oob_witness() {
    let mut input = mk_unstocked();
    let id: u16 = kani::any();
    kani::assume(id >= 32);
    // the device: one used element with an id that names no buffer
    dev_used_push(EVQ_USED_DMA, QUEUE_SIZE, id, 8);
    // C07: every driver call ends in a result or an error for every used-ring content
    let r = input.pop_pending_event();
    assert!(r.is_none(), "C07: an id outside the event table must be rejected, not delivered");
    core::mem::forget(input);
}

/// C07 / C19 on the real function, empty-ring case (bounded stand-in: fresh 32-entry queues, nothing posted, used index
/// equal to the driver's): `pop_pending_event` returns None, publishes nothing, notifies nobody, shares nothing.
#[kani::proof]
#[kani::unwind(40)]
fn c19_input_no_event() {
    let mut input = mk_unstocked();
    let n0 = log_len();
    let r = input.pop_pending_event();
    assert!(r.is_none(), "C19: an event was delivered although the device completed nothing");
    assert!(dev_avail_idx(EVQ_DESC_DMA, QUEUE_SIZE) == 0, "C19: a ring entry was published although nothing was completed");
    assert!(log_len() == n0 && sh_n() == 0 && unsh_n() == 0, "C19: transport / HAL calls although nothing was completed");
    core::mem::forget(input);
}
