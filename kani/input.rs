//! Kani harnesses over the real input driver (child module of `crate::device::input`, so the private fields of
//! `VirtIOInput`, the private constants and the private fields of `VirtQueue` are visible).  Appended to the scratch
//! copy of src/device/input.rs.  Second back end for the Verus unit `input` (C19 / C07).
//!
//! * `c19_input_event_layout`, `c19_input_slot_identity`: loop-free over full-domain symbolic inputs: COMPLETE proofs.
//!   They validate the contract stubs of units/input.vrs (`EventRef::read`, `EventRef::as_mut_bytes`,
//!   `EventBuf::slot`, `SIZE_OF_INPUT_EVENT`, `QUEUE_SIZE`, `QUEUE_EVENT`) against the real types.
//! * `c07_input_config_layout`: loop-free, complete: offsets / size of the private `Config` struct, the
//!   `InputConfigSelect` codes and the register widths that units/input_config.vrs copies.
//! * `c07_input_slot_oob_panics`: complete (every index 32..=65535): Rust's bounds check at `event_buf[i]` is a panic.
//!
//! No scenario harness (stock 32 buffers, complete some, poll) is offered: `QUEUE_SIZE` is the constant 32 and two
//! 32-entry queues with 32 posted buffers exhaust CBMC's memory (see kani/init.rs `k08_new_input`); the unbounded
//! claim rests on the Verus unit, the queue underneath has its own SIZE=4 scenario harnesses (kani/queue.rs,
//! kani/owning.rs).
#![allow(dead_code, missing_docs, clippy::undocumented_unsafe_blocks, static_mut_refs)]
extern crate alloc;
use super::*;
use crate::transport::DeviceType;
use crate::verif_support::{log_at, log_len, Ev, KTransport};
// the reference device shared with the C20 harnesses (sees only DMA memory and HAL calls; the private fields of
// `VirtQueue` are not visible from `crate::device::input`)
#[path = "/verif/kani/cmd_dev.rs"]
mod dev;
use dev::*;

/// DMA allocation numbers (modern layout, allocation order of `VirtQueue::new`): event queue = 0 (descriptors +
/// available ring) and 1 (used ring); status queue = 2 and 3
const EVQ_DESC_DMA: usize = 0;
const EVQ_USED_DMA: usize = 1;

/// the driver value assembled from its parts: two real `VirtQueue::new`, the boxed event table, NO buffers posted
/// (`VirtIOInput::new` with its 32 adds is beyond CBMC here, see the module comment)
fn mk_unstocked() -> VirtIOInput<DHal, KTransport> {
    dev_reset();
    let mut transport = KTransport::new(DeviceType::Input);
    let event_queue = VirtQueue::<DHal, QUEUE_SIZE>::new(&mut transport, QUEUE_EVENT, false, false, false).unwrap();
    let status_queue = VirtQueue::<DHal, QUEUE_SIZE>::new(&mut transport, QUEUE_STATUS, false, false, false).unwrap();
    let event_buf = Box::new([InputEvent::default(); QUEUE_SIZE]);
    VirtIOInput::<DHal, KTransport> { transport, event_queue, status_queue, event_buf }
}

/// C19 stub validation (loop-free, complete over all 2^64 byte patterns): `InputEvent` is 8 bytes; the bytes
/// `as_mut_bytes()` exposes are the little-endian image of (event_type: le16, code: le16, value: le32) as laid out by
/// VirtIO 1.x 5.8.6 `struct virtio_input_event`, so that `*event` after the device wrote `b` is `event_of(b)`.
/// Also pins the constants the unit copies.
#[kani::proof]
fn c19_input_event_layout() {
    assert!(size_of::<InputEvent>() == 8, "C19: size_of::<InputEvent>() is not 8");
    assert!(QUEUE_SIZE == 32 && QUEUE_EVENT == 0, "C19: input queue constants");
    let b: [u8; 8] = kani::any();
    let mut ev = InputEvent::default();
    {
        let bytes = ev.as_mut_bytes();
        assert!(bytes.len() == 8, "C19: as_mut_bytes() of an InputEvent is not 8 bytes");
        // what the device does: writes the buffer that was posted
        bytes[0] = b[0]; bytes[1] = b[1]; bytes[2] = b[2]; bytes[3] = b[3];
        bytes[4] = b[4]; bytes[5] = b[5]; bytes[6] = b[6]; bytes[7] = b[7];
    }
    let copy = ev;
    assert!(copy.event_type == b[0] as u16 + 256 * (b[1] as u16), "C19: event_type is not the le16 at offset 0");
    assert!(copy.code == b[2] as u16 + 256 * (b[3] as u16), "C19: code is not the le16 at offset 2");
    assert!(
        copy.value == b[4] as u32 + 256 * (b[5] as u32) + 65536 * (b[6] as u32) + 16777216 * (b[7] as u32),
        "C19: value is not the le32 at offset 4"
    );
}

/// C19 stub validation (loop-free, complete over all pairs of indices < 32): the buffer handed to the queue for slot
/// `i`, `(&mut event_buf[i]).as_mut_bytes()`, is the 8-byte range at `base + 8*i` of the one heap allocation - a
/// function of (allocation, i) only (`evbuf_nn`), the same on every evaluation, disjoint for different slots.
#[kani::proof]
fn c19_input_slot_identity() {
    let mut event_buf: Box<[InputEvent; 32]> = Box::new([InputEvent::default(); QUEUE_SIZE]);
    let base = event_buf.as_ptr() as usize;
    let i: usize = kani::any();
    let j: usize = kani::any();
    kani::assume(i < 32 && j < 32);
    let (pi, li) = {
        let e = &mut event_buf[i];
        let s = e.as_mut_bytes();
        (s.as_mut_ptr() as usize, s.len())
    };
    let (pj, lj) = {
        let e = &mut event_buf[j];
        let s = e.as_mut_bytes();
        (s.as_mut_ptr() as usize, s.len())
    };
    let (pi2, _) = {
        let e = &mut event_buf[i];
        let s = e.as_mut_bytes();
        (s.as_mut_ptr() as usize, s.len())
    };
    assert!(li == 8 && lj == 8, "C19: a slot's buffer is not 8 bytes");
    assert!(pi == base + 8 * i && pj == base + 8 * j, "C19: slot i is not the range base + 8*i");
    assert!(pi == pi2, "C19: the same slot gives a different buffer on a second evaluation");
    assert!(i == j || pi + 8 <= pj || pj + 8 <= pi, "C19: buffers of different slots overlap");
}

/// C07 (complete over every u16 id >= 32): `&mut event_buf[id as usize]` is a Rust bounds-check panic for every id
/// outside the table - what `EventBuf::slot_checked` states, and what `EventBuf::slot` demands to be unreachable.
#[kani::proof]
#[kani::should_panic]
fn c07_input_slot_oob_panics() {
    let mut event_buf: Box<[InputEvent; 32]> = Box::new([InputEvent::default(); QUEUE_SIZE]);
    let id: u16 = kani::any();
    kani::assume(id >= 32);
    let e = &mut event_buf[id as usize];
    // not reached
    e.value = 1;
}

/// C07 / C19 on the real function, empty-ring case (bounded stand-in: fresh 32-entry queues, nothing posted, used index
/// equal to the driver's): `pop_pending_event` returns None, publishes nothing, notifies nobody, shares nothing.
#[kani::proof]
#[kani::unwind(40)]
fn c19_input_no_event() {
    let mut input = mk_unstocked();
    let n0 = log_len();
    let r = input.pop_pending_event();
    assert!(r.is_none(), "C19: an event was delivered although the device completed nothing");
    assert!(dev_avail_idx(EVQ_DESC_DMA, QUEUE_SIZE) == 0, "C19: a ring entry was published although nothing was completed");
    assert!(log_len() == n0 && sh_n() == 0 && unsh_n() == 0, "C19: transport / HAL calls although nothing was completed");
    core::mem::forget(input);
}

/// C19 scenario on the real `pop_pending_event` over the real queue (BOUNDED stand-in for the Verus unit `input`):
/// two of the 32 event buffers are posted (tokens 0 and 1, by the same `add` call the constructor makes; posting all
/// 32 is beyond CBMC, see the module comment), the device completes the SECOND one (token 1, out of posting order; a
/// symbolic choice of the token exhausts CBMC's memory: status 6 after 290 s) with ANY 8 bytes and ANY used length
/// (the driver does not look at it), no event-index.  Then: exactly that event is
/// delivered (le16/le16/le32 decoding of the device's bytes), the buffer was unshared once with the address `share`
/// returned, the SAME buffer is shared again and published under the SAME token in the next ring slot (index 2 -> 3),
/// its descriptor describes `event_buf[token]` (8 bytes, device-writable), the device is notified on queue 0, and a
/// second call finds nothing.  Bounds: 2 posted buffers, 1 completion (token 1), fresh ring indices.
#[kani::proof]
#[kani::unwind(40)]
fn c19_input_pop_repost_partial() {
    let mut input = mk_unstocked();
    let mut k = 0;
    while k < 2 {
        let tok = unsafe { input.event_queue.add(&[], &mut [input.event_buf[k].as_mut_bytes()]) }.unwrap();
        assert!(tok == k as u16, "C19: add on a fresh queue must return tokens in order");
        k += 1;
    }
    let t: u16 = 1;
    let bytes: [u8; 8] = kani::any();
    let len: u32 = kani::any();
    let mut data = [0u8; CAP];
    let mut i = 0;
    while i < 8 { data[i] = bytes[i]; i += 1; }
    dev_arm(&data);
    dev_used_push(EVQ_USED_DMA, QUEUE_SIZE, t, len);
    let buf_t = input.event_buf[t as usize].as_mut_bytes().as_mut_ptr();
    let n0 = log_len();
    let sh0 = sh_n();

    let r = input.pop_pending_event();

    let ev = match r { Some(e) => e, None => panic!("C19: the completed event was not delivered") };
    assert!(ev.event_type == bytes[0] as u16 + 256 * (bytes[1] as u16), "C19: delivered event_type differs from the device's bytes");
    assert!(ev.code == bytes[2] as u16 + 256 * (bytes[3] as u16), "C19: delivered code differs from the device's bytes");
    assert!(
        ev.value == bytes[4] as u32 + 256 * (bytes[5] as u32) + 65536 * (bytes[6] as u32) + 16777216 * (bytes[7] as u32),
        "C19: delivered value differs from the device's bytes"
    );
    assert!(unsh_n() == 1 && !unsh_bad(), "C19/C04: the completed buffer must be unshared exactly once with the address share returned");
    assert!(sh_n() == sh0 + 1, "C19: exactly one buffer must be posted again");
    assert!(sh(sh0).ptr == buf_t && sh(sh0).len == 8 && sh(sh0).dir == 1, "C19: the buffer posted again is not event_buf[token] (8 bytes, device-writable)");
    assert!(dev_avail_idx(EVQ_DESC_DMA, QUEUE_SIZE) == 3, "C19: exactly one ring entry must be published");
    let slot2 = unsafe { (dma_ptr(EVQ_DESC_DMA).add(16 * QUEUE_SIZE + 4 + 2 * 2) as *const u16).read() };
    assert!(slot2 == t, "C19: the buffer must be posted again under the same token");
    let (d_addr, d_len, d_flags) = unsafe {
        let d = dma_ptr(EVQ_DESC_DMA).add(16 * t as usize);
        ((d as *const u64).read(), (d.add(8) as *const u32).read(), (d.add(12) as *const u16).read())
    };
    assert!(d_addr == buf_t as u64 + BOUNCE && d_len == 8 && d_flags == 2, "C19: descriptor `token` does not describe event_buf[token]");
    assert!(log_len() == n0 + 1 && log_at(n0) == Ev::Notify(QUEUE_EVENT), "C19/C05: the device must be notified on the event queue");
    assert!(input.event_queue.available_desc() == QUEUE_SIZE - 2, "C19: the number of posted buffers must be restored");

    // delivered exactly once: nothing further is pending
    let r2 = input.pop_pending_event();
    assert!(r2.is_none(), "C19: the same event was delivered twice");
    assert!(dev_avail_idx(EVQ_DESC_DMA, QUEUE_SIZE) == 3 && sh_n() == sh0 + 1 && log_len() == n0 + 1, "C19: a poll without a completion must not touch the queue");
    core::mem::forget(input);
}

/// C07 stub validation for units/input_config.vrs (loop-free: COMPLETE): struct virtio_input_config (VirtIO 1.x 5.8.4)
/// as the driver declares it - select @0, subsel @1, size @2, data @8, 136 bytes, every register one byte wide, so
/// `read_config!/write_config!(.., Config, f)` are byte accesses at those offsets - and the VIRTIO_INPUT_CFG_* select
/// codes (5.8.2) behind `select as u8`.
#[kani::proof]
fn c07_input_config_layout() {
    assert!(offset_of!(Config, select) == 0 && offset_of!(Config, subsel) == 1 && offset_of!(Config, size) == 2, "C07: input Config header offsets");
    assert!(offset_of!(Config, data) == 8 && size_of::<Config>() == 136 && CONFIG_DATA_MAX_LENGTH == 128, "C07: input Config data offset / size");
    assert!(size_of::<WriteOnly<u8>>() == 1 && size_of::<ReadOnly<u8>>() == 1, "C07: input Config registers are not byte-wide");
    assert!(InputConfigSelect::IdName as u8 == 0x01 && InputConfigSelect::IdSerial as u8 == 0x02 && InputConfigSelect::IdDevids as u8 == 0x03,
            "C07: VIRTIO_INPUT_CFG_ID_* codes");
    assert!(InputConfigSelect::PropBits as u8 == 0x10 && InputConfigSelect::EvBits as u8 == 0x11 && InputConfigSelect::AbsInfo as u8 == 0x12,
            "C07: VIRTIO_INPUT_CFG_{PROP,EV}_BITS / ABS_INFO codes");
    assert!(size_of::<DevIDs>() == 8 && size_of::<AbsInfo>() == 20, "C07: sizes of the structured answers");
}
