//! C13 Kani harnesses on the real `VirtIOSocket::new` guest-CID read and the `VirtioVsockConfig` layout
//! (child module of `crate::device::socket::vsock`, appended to the scratch copy of src/device/socket/vsock.rs).
#![allow(dead_code, missing_docs, clippy::undocumented_unsafe_blocks)]
use super::*;
use crate::transport::DeviceType;
use crate::verif_support::KHal;

#[path = "/verif/kani/config_script.rs"]
mod script;
use script::*;

/// C13 K (loop-free, complete): offsets / widths of the two CID halves and the accesses `read_config!` makes.
#[kani::proof]
#[kani::unwind(14)]
fn c13_offsets_vsock() {
    assert!(core::mem::offset_of!(VirtioVsockConfig, guest_cid_low) == 0, "C13: offset_of!(VirtioVsockConfig, guest_cid_low) != 0");
    assert!(core::mem::offset_of!(VirtioVsockConfig, guest_cid_high) == 4, "C13: offset_of!(VirtioVsockConfig, guest_cid_high) != 4");
    let t = ScriptT::any(DeviceType::Socket);
    let lo: u32 = read_config!(t, VirtioVsockConfig, guest_cid_low).unwrap();
    let hi: u32 = read_config!(t, VirtioVsockConfig, guest_cid_high).unwrap();
    assert!(t.time() == 2 && t.acc_at(0) == Acc::Read(0, 4) && t.acc_at(1) == Acc::Read(4, 4), "C13: read_config! accesses differ from (0,4),(4,4)");
    assert!(lo == t.u32_at(0, 0) && hi == t.u32_at(1, 4), "C13: read_config! value differs from the device bytes");
}

/// C13 K<= (BOUND: STEPS = 12 scripted accesses; three 8-entry queues and 8 receive buffers of 64 bytes built
/// by the real constructor): the guest CID stored by the real `VirtIOSocket::new` is `low | high << 32` of
/// ONE configuration, for every placement of configuration changes, given a generation-bumping device.
#[kani::proof]
#[kani::unwind(18)]
fn c13_vsock_cid_untorn() {
    let t = ScriptT::any(DeviceType::Socket);
    t.assume_honours_generation();
    let cfg = t.cfg;
    let s = VirtIOSocket::<KHal, ScriptT, 64>::new(t).unwrap();
    let n = s.transport.time();
    assert!(n >= 4 && n % 4 == 0, "C13: unexpected number of configuration accesses in VirtIOSocket::new");
    let k = n - 4;
    let one = (u32::from_le_bytes([cfg[k][0], cfg[k][1], cfg[k][2], cfg[k][3]]) as u64)
        | ((u32::from_le_bytes([cfg[k][4], cfg[k][5], cfg[k][6], cfg[k][7]]) as u64) << 32);
    assert!(s.guest_cid() == one, "C13: torn guest CID: halves come from two configuration generations");
    core::mem::forget(s);
}
