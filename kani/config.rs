//! C13 Kani harnesses on the real `Transport::read_consistent` (provided trait method) and the helpers of
//! src/config.rs (child module of `crate::config`, appended to the scratch copy of src/config.rs).
//! The transport-level harnesses are in config_mmio.rs / config_pci.rs, the driver-level ones in
//! config_blk.rs, config_vsock.rs, config_console.rs, config_net.rs, config_9p.rs.
#![allow(dead_code, missing_docs, clippy::undocumented_unsafe_blocks)]
use super::*;
use crate::transport::DeviceType;

#[path = "/verif/kani/config_script.rs"]
mod script;
use script::*;

fn two_halves(t: &ScriptT) -> crate::Result<u64> {
    t.read_consistent(|| {
        Ok((t.read_config_space::<u32>(0)? as u64) | ((t.read_config_space::<u32>(4)? as u64) << 32))
    })
}

/// C13 K<= (BOUND: at most STEPS = 12 device accesses, i.e. up to 3 iterations of the retry loop; device
/// behaviour completely arbitrary: any configuration and any generation value at every access):
/// the loop contract of `read_consistent` on the real code: on return the access history ends with
/// `Gen, Read(0,4), Read(4,4), Gen`, the two generation values are equal, and the result is assembled from
/// exactly the two reads of that last iteration.
#[kani::proof]
#[kani::unwind(14)]
fn c13_read_consistent_bracket() {
    let t = ScriptT::any(DeviceType::Block);
    let r = two_halves(&t);
    let n = t.time();
    assert!(n >= 4 && n % 4 == 0, "C13: read_consistent made a partial iteration");
    assert!(t.acc_at(n - 4) == Acc::Gen && t.acc_at(n - 1) == Acc::Gen, "C13: result not bracketed by two generation reads");
    assert!(t.acc_at(n - 3) == Acc::Read(0, 4) && t.acc_at(n - 2) == Acc::Read(4, 4), "C13: closure reads are not between the generation reads");
    assert!(t.gener[n - 4] == t.gener[n - 1], "C13: read_consistent returned although the generation changed");
    let v = r.unwrap();
    assert!(v == (t.u32_at(n - 3, 0) as u64) | ((t.u32_at(n - 2, 4) as u64) << 32), "C13: result is not assembled from the reads of the final iteration");
    // every earlier iteration saw a generation change
    let mut k = 0;
    while k + 4 < n {
        assert!(t.gener[k] != t.gener[k + 3], "C13: an iteration with equal generations was discarded");
        k += 4;
    }
}

/// C13 K<= (same bound), property statement: if the device changes the generation whenever it changes the
/// configuration (placement of the changes between the individual reads arbitrary), the assembled value
/// equals the value of ONE configuration the device exposed.
#[kani::proof]
#[kani::unwind(14)]
fn c13_read_consistent_untorn() {
    let t = ScriptT::any(DeviceType::Block);
    t.assume_honours_generation();
    let r = two_halves(&t);
    let n = t.time();
    let k = n - 4;
    let v = r.unwrap();
    assert!(v == (t.u32_at(k, 0) as u64) | ((t.u32_at(k, 4) as u64) << 32), "C13: torn read: value mixes two configuration generations");
    assert!(t.cfg[k] == t.cfg[n - 1], "C13: configuration changed inside the accepted iteration");
}

/// C13 K (loop-free, complete): `read_help` / `write_help` pass exactly the given offset and the value type
/// selected by the register wrapper to the transport (one access, nothing else).
#[kani::proof]
#[kani::unwind(14)]
fn c13_read_help_passes_offset() {
    let t = ScriptT::any(DeviceType::Block);
    let offset: usize = kani::any();
    let r: crate::Result<u16> = read_help(&t, offset, None::<ReadOnly<u16>>);
    if offset <= CFG - 2 {
        assert!(t.time() == 1 && t.acc_at(0) == Acc::Read(offset, 2), "C13: read_help did not make exactly the requested access");
        assert!(r.unwrap() == t.u16_at(0, offset), "C13: read_help returned a different value");
    } else {
        assert!(t.time() == 0 && matches!(r, Err(Error::ConfigSpaceTooSmall)), "C13: out-of-window read_help must fail without access");
    }
}
