//! Kani harnesses for property C11 on the real `src/transport/pci.rs` (child module of
//! `crate::transport::pci`, so private items are visible).  Appended to the scratch copy of the file.
//!
//! K∎ = loop-free over full-domain symbolic inputs (complete for the stated instantiation);
//! K≤ = bounded stand-in (bound stated).
#![allow(dead_code, missing_docs, clippy::undocumented_unsafe_blocks)]
use super::*;
use crate::transport::pci::bus::{ConfigurationAccess, DeviceFunction, PciRoot};
use crate::{BufferDirection, Hal, PhysAddr};
use core::mem::offset_of;
use core::ptr::NonNull;

// ---------------------------------------------------------------------------------------------
// Environment models
// ---------------------------------------------------------------------------------------------

/// A reference PCI function: 64 configuration words; every bit of `mask[i]` in word i is writable, every
/// other bit keeps its value (BAR flag bits, hard-wired address bits, read-only registers).
struct FakeCam {
    words: [u32; 64],
    mask: [u32; 64],
}
impl ConfigurationAccess for FakeCam {
    fn read_word(&self, _df: DeviceFunction, register_offset: u8) -> u32 {
        self.words[(register_offset >> 2) as usize]
    }
    fn write_word(&mut self, _df: DeviceFunction, register_offset: u8, data: u32) {
        let i = (register_offset >> 2) as usize;
        self.words[i] = (data & self.mask[i]) | (self.words[i] & !self.mask[i]);
    }
    unsafe fn unsafe_clone(&self) -> Self {
        FakeCam { words: self.words, mask: self.mask }
    }
}
const DF: DeviceFunction = DeviceFunction { bus: 0, device: 1, function: 0 };

/// The platform: records the (paddr, size) of every mapping request and hands out an address inside a
/// 4 KiB-aligned static buffer at `paddr`'s page offset (so the alignment test sees the real low bits).
#[repr(C, align(4096))]
struct Page([u8; 8192]);
static mut PAGE: Page = Page([0; 8192]);
static mut MAPPED: [(u64, usize); 4] = [(0, 0); 4];
static mut NMAPPED: usize = 0;
struct PHal;
unsafe impl Hal for PHal {
    fn dma_alloc(_pages: usize, _d: BufferDirection, _ap: bool) -> (PhysAddr, NonNull<u8>) { unimplemented!() }
    unsafe fn dma_dealloc(_p: PhysAddr, _v: NonNull<u8>, _pages: usize, _ap: bool) -> i32 { unimplemented!() }
    unsafe fn mmio_phys_to_virt(paddr: PhysAddr, size: usize) -> NonNull<u8> {
        unsafe {
            assert!(NMAPPED < 4);
            MAPPED[NMAPPED] = (paddr, size);
            NMAPPED += 1;
            let base = &raw mut PAGE as *mut u8;
            NonNull::new(base.add((paddr & 0xfff) as usize)).unwrap()
        }
    }
    unsafe fn share(_b: NonNull<[u8]>, _d: BufferDirection, _ap: bool) -> PhysAddr { unimplemented!() }
    unsafe fn unshare(_p: PhysAddr, _b: NonNull<[u8]>, _d: BufferDirection, _ap: bool) {}
}

/// A function with one naturally aligned 64-bit memory BAR (slots 0/1) of size 2^log2 at `addr`.
fn cam_with_bar64(log2: u32, addr: u64) -> FakeCam {
    let size: u64 = 1u64 << log2;
    let m: u64 = !(size - 1);
    let mut cam = FakeCam { words: [0; 64], mask: [0; 64] };
    cam.mask[1] = 0xffff; // command register
    cam.mask[4] = (m as u32) & !0xf;
    cam.mask[5] = (m >> 32) as u32;
    cam.words[4] = ((addr & m) as u32 & !0xf) | 0b0100; // memory, 64-bit, not prefetchable
    cam.words[5] = ((addr & m) >> 32) as u32;
    cam
}

// ---------------------------------------------------------------------------------------------
// K∎ layout / constant / stub validation
// ---------------------------------------------------------------------------------------------

/// C11 K∎: the offset/width table of units/pci_pre.vrs (`reg_offset`, `reg_width`, COMMON_CFG_SIZE,
/// `axiom_layout`) equals the layout of the real `#[repr(C)] CommonCfg` and of the element types the
/// transport maps.  No inputs: complete.
#[kani::proof]
fn c11_commoncfg_layout() {
    assert!(offset_of!(CommonCfg, device_feature_select) == 0, "C11: CommonCfg.device_feature_select offset");
    assert!(offset_of!(CommonCfg, device_feature) == 4, "C11: CommonCfg.device_feature offset");
    assert!(offset_of!(CommonCfg, driver_feature_select) == 8, "C11: CommonCfg.driver_feature_select offset");
    assert!(offset_of!(CommonCfg, driver_feature) == 12, "C11: CommonCfg.driver_feature offset");
    assert!(offset_of!(CommonCfg, msix_config) == 16, "C11: CommonCfg.msix_config offset");
    assert!(offset_of!(CommonCfg, num_queues) == 18, "C11: CommonCfg.num_queues offset");
    assert!(offset_of!(CommonCfg, device_status) == 20, "C11: CommonCfg.device_status offset");
    assert!(offset_of!(CommonCfg, config_generation) == 21, "C11: CommonCfg.config_generation offset");
    assert!(offset_of!(CommonCfg, queue_select) == 22, "C11: CommonCfg.queue_select offset");
    assert!(offset_of!(CommonCfg, queue_size) == 24, "C11: CommonCfg.queue_size offset");
    assert!(offset_of!(CommonCfg, queue_msix_vector) == 26, "C11: CommonCfg.queue_msix_vector offset");
    assert!(offset_of!(CommonCfg, queue_enable) == 28, "C11: CommonCfg.queue_enable offset");
    assert!(offset_of!(CommonCfg, queue_notify_off) == 30, "C11: CommonCfg.queue_notify_off offset");
    assert!(offset_of!(CommonCfg, queue_desc) == 32, "C11: CommonCfg.queue_desc offset");
    assert!(offset_of!(CommonCfg, queue_driver) == 40, "C11: CommonCfg.queue_driver offset");
    assert!(offset_of!(CommonCfg, queue_device) == 48, "C11: CommonCfg.queue_device offset");
    assert!(size_of::<CommonCfg>() == 56 && align_of::<CommonCfg>() == 8, "C11: CommonCfg size/alignment");
    assert!(size_of::<ReadPureWrite<u32>>() == 4 && size_of::<ReadPure<u32>>() == 4, "C11: 32-bit field width");
    assert!(size_of::<ReadPureWrite<u16>>() == 2 && size_of::<ReadPure<u16>>() == 2, "C11: 16-bit field width");
    assert!(size_of::<ReadPureWrite<u8>>() == 1 && size_of::<ReadPure<u8>>() == 1, "C11: 8-bit field width");
    assert!(size_of::<ReadPureWrite<u64>>() == 8, "C11: 64-bit field width");
    assert!(size_of::<WriteOnly<u16>>() == 2 && align_of::<WriteOnly<u16>>() == 2, "C11: notify element layout");
    assert!(size_of::<ReadOnly<u8>>() == 1 && align_of::<ReadOnly<u8>>() == 1, "C11: ISR element layout");
    assert!(size_of::<u32>() == 4 && align_of::<u32>() == 4 && size_of::<u16>() == 2, "C11: config word layout");
}

/// C11 K∎: the constants restated in units/pci.vrs equal the crate's.  No inputs: complete.
#[kani::proof]
fn c11_constants() {
    assert!(VIRTIO_VENDOR_ID == 0x1af4, "C11: VIRTIO_VENDOR_ID");
    assert!(PCI_CAP_ID_VNDR == 0x09, "C11: PCI_CAP_ID_VNDR");
    assert!(CAP_BAR_OFFSET == 4 && CAP_BAR_OFFSET_OFFSET == 8 && CAP_LENGTH_OFFSET == 12, "C11: virtio_pci_cap field offsets");
    assert!(CAP_NOTIFY_OFF_MULTIPLIER_OFFSET == 16, "C11: notify_off_multiplier offset");
    assert!(VIRTIO_PCI_CAP_COMMON_CFG == 1 && VIRTIO_PCI_CAP_NOTIFY_CFG == 2, "C11: cfg_type values");
    assert!(VIRTIO_PCI_CAP_ISR_CFG == 3 && VIRTIO_PCI_CAP_DEVICE_CFG == 4, "C11: cfg_type values");
}

/// C11 K∎: stub `usize_is_multiple_of` (units/pci_pre.vrs) against `usize::is_multiple_of`, for every
/// address and the alignments that occur (1, 2, 4, 8) plus 0.  Loop-free: complete for these divisors.
#[kani::proof]
fn c11_stub_is_multiple_of() {
    let a: usize = kani::any();
    let b: usize = kani::any();
    kani::assume(b == 0 || b == 1 || b == 2 || b == 4 || b == 8);
    let r = a.is_multiple_of(b);
    let spec = if b == 0 { a == 0 } else { a % b == 0 };
    assert!(r == spec, "C11: stub usize_is_multiple_of disagrees with usize::is_multiple_of");
}

/// C11 K∎: the bitflags models of units/pci_pre.vrs (DeviceStatus::{empty, from_bits_truncate, bits, ==},
/// InterruptStatus::from_bits_retain) against the real types, for every 8-bit register value and every
/// 32-bit flag word.  Bounded only by the flag-table loop of bitflags (unwind 10 > 6 flags): complete.
#[kani::proof]
#[kani::unwind(10)]
fn c11_stub_flags() {
    let b: u8 = kani::any();
    let s = DeviceStatus::from_bits_truncate(b.into());
    assert!(s.bits() == (b as u32) & 0xcf, "C11: DeviceStatus::from_bits_truncate model");
    assert!((s != DeviceStatus::empty()) == (s.bits() != 0), "C11: DeviceStatus equality model");
    assert!(DeviceStatus::empty().bits() == 0, "C11: DeviceStatus::empty model");
    let w: u32 = kani::any();
    assert!(DeviceStatus::from_bits_retain(w).bits() == w, "C11: DeviceStatus::bits model");
    assert!(InterruptStatus::from_bits_retain(b.into()).bits() == b as u32, "C11: InterruptStatus::from_bits_retain model");
}

// ---------------------------------------------------------------------------------------------
// get_bar_region on the real code
// ---------------------------------------------------------------------------------------------

fn bar_region_check(offset: u32, length: u32, log2: u32, addr: u64) {
    kani::assume(log2 >= 4 && log2 <= 63);
    let size: u64 = 1u64 << log2;
    let cam = cam_with_bar64(log2, addr);
    let address = addr & !(size - 1);
    let mut root = PciRoot::new(cam);
    let info = VirtioCapabilityInfo { bar: 0, offset, length };
    unsafe { NMAPPED = 0; }
    let r = get_bar_region::<PHal, [u8; 4], FakeCam>(&mut root, DF, &info);
    // sizing left the BAR registers as they were
    assert!(root.configuration_access.words[4] == ((address as u32) & !0xf) | 0b0100, "C11: bar_info did not restore the BAR");
    assert!(root.configuration_access.words[5] == (address >> 32) as u32, "C11: bar_info did not restore the BAR (high word)");
    let inside = address != 0 && (offset as u64) + (length as u64) <= size && length >= 4;
    match r {
        Ok(p) => {
            assert!(inside, "C11: get_bar_region accepted a window that is not inside the memory BAR");
            let (paddr, sz) = unsafe { MAPPED[0] };
            assert!(unsafe { NMAPPED } == 1, "C11: exactly one mapping request");
            assert!(paddr == address + offset as u64 && sz == length as usize, "C11: mapped range is not the capability window");
            let expect = unsafe { (&raw mut PAGE as *mut u8).add((paddr & 0xfff) as usize) };
            assert!(p.as_ptr() as *mut u8 == expect, "C11: returned pointer is not the mapping");
        }
        Err(_) => {
            assert!(!inside, "C11: get_bar_region refused a window inside the memory BAR ([u8;4] needs no alignment)");
        }
    }
}

/// C11 K∎ (witness source): real `get_bar_region::<_, [u8;4], _>` over a reference PCI function with one
/// naturally aligned 64-bit memory BAR: all 2^32 x 2^32 (offset, length), every size 2^4..2^63, every
/// address (incl. unallocated 0).  Loop-free apart from the bitflags flag-table loops (unwind 20): complete
/// for this BAR shape.  EXPECTED TO FAIL on the current tree (suspected defect S1: u32 `offset + length`).
#[kani::proof]
#[kani::unwind(20)]
fn c11_get_bar_region_bounds() {
    bar_region_check(kani::any(), kani::any(), kani::any(), kani::any());
}

/// C11 K∎: the same with the witness class of S1 excluded (`offset + length` fits in 32 bits): every other
/// input behaves as specified.
#[kani::proof]
#[kani::unwind(20)]
fn c11_get_bar_region_bounds_nowrap() {
    let offset: u32 = kani::any();
    let length: u32 = kani::any();
    kani::assume(offset as u64 + length as u64 <= u32::MAX as u64);
    bar_region_check(offset, length, kani::any(), kani::any());
}

/// C11 K∎: I/O BARs and unimplemented BARs are refused (BAR slot symbolic 0..5, any I/O address/mask).
#[kani::proof]
#[kani::unwind(20)]
fn c11_get_bar_region_io_unused() {
    let bar: u8 = kani::any();
    kani::assume(bar < 6);
    let io: bool = kani::any();
    let mut cam = FakeCam { words: [0; 64], mask: [0; 64] };
    cam.mask[1] = 0xffff;
    if io {
        let m: u32 = kani::any();
        let v: u32 = kani::any();
        cam.mask[4 + bar as usize] = m & !0x3;
        cam.words[4 + bar as usize] = (v & m & !0x3) | 1;
    }
    let mut root = PciRoot::new(cam);
    let info = VirtioCapabilityInfo { bar, offset: kani::any(), length: kani::any() };
    let r = get_bar_region::<PHal, u8, FakeCam>(&mut root, DF, &info);
    assert!(r.is_err(), "C11: a window in an I/O or unimplemented BAR was accepted");
}

// ---------------------------------------------------------------------------------------------
// Transport operations on the real code, MMIO windows backed by ordinary memory
// ---------------------------------------------------------------------------------------------
#[repr(C, align(8))]
struct CfgMem([u8; 56]);
const NSLOTS: usize = 8;

fn rd16(m: &CfgMem, off: usize) -> u16 { u16::from_le_bytes([m.0[off], m.0[off + 1]]) }
fn rd32(m: &CfgMem, off: usize) -> u32 { u32::from_le_bytes([m.0[off], m.0[off + 1], m.0[off + 2], m.0[off + 3]]) }
fn rd64(m: &CfgMem, off: usize) -> u64 {
    u64::from_le_bytes([m.0[off], m.0[off + 1], m.0[off + 2], m.0[off + 3], m.0[off + 4], m.0[off + 5], m.0[off + 6], m.0[off + 7]])
}

unsafe fn transport_on(cfg: *mut CfgMem, notify: *mut [u16; NSLOTS], isr: *mut u8, mult: u32) -> PciTransport {
    unsafe {
        PciTransport {
            device_type: DeviceType::Block,
            device_function: DF,
            common_cfg: UniqueMmioPointer::new(NonNull::new(cfg as *mut CommonCfg).unwrap()),
            notify_region: UniqueMmioPointer::new(NonNull::slice_from_raw_parts(
                NonNull::new(notify as *mut WriteOnly<u16>).unwrap(),
                NSLOTS,
            )),
            notify_off_multiplier: mult,
            isr_status: UniqueMmioPointer::new(NonNull::new(isr as *mut ReadOnly<u8>).unwrap()),
            config_space: None,
        }
    }
}

/// C11 K∎: real `queue_set`, `write_driver_features`, `set_status`, `max_queue_size`, `queue_used`,
/// `read_config_generation`, `get_status`, `ack_interrupt` against ordinary memory standing in for the
/// windows: each touches exactly the bytes the contract's access list names (all other bytes of the 56-byte
/// common window, symbolic beforehand, are unchanged) and returns what those bytes hold.  Final-state check
/// (the ORDER of accesses is the Verus contract).  Loop-free, all argument values: complete.
#[kani::proof]
fn c11_ops_real() {
    let mut cfg = CfgMem(kani::any());
    let before = CfgMem(cfg.0);
    let mut notify = [0u16; NSLOTS];
    let mut isr: u8 = kani::any();
    let isr0 = isr;
    let mut t = unsafe { transport_on(&mut cfg, &mut notify, &mut isr, 2) };
    let which: u8 = kani::any();
    let q: u16 = kani::any();
    let mut touched = [false; 56];
    match which {
        0 => {
            let (size, d, a, u): (u32, u64, u64, u64) = (kani::any(), kani::any(), kani::any(), kani::any());
            t.queue_set(q, size, d, a, u);
            core::mem::forget(t);
            assert!(rd16(&cfg, 22) == q && rd16(&cfg, 24) == size as u16, "C11: queue_set queue_select/queue_size");
            assert!(rd64(&cfg, 32) == d && rd64(&cfg, 40) == a && rd64(&cfg, 48) == u, "C11: queue_set ring addresses");
            assert!(rd16(&cfg, 28) == 1, "C11: queue_set queue_enable");
            for i in [22, 23, 24, 25, 28, 29] { touched[i] = true; }
            let mut i = 32;
            while i < 56 { touched[i] = true; i += 1; }
        }
        1 => {
            let f: u64 = kani::any();
            t.write_driver_features(f);
            core::mem::forget(t);
            assert!(rd32(&cfg, 8) == 1 && rd32(&cfg, 12) == (f >> 32) as u32, "C11: write_driver_features final select/high word");
            let mut i = 8;
            while i < 16 { touched[i] = true; i += 1; }
        }
        2 => {
            let s: u8 = kani::any();
            t.set_status(DeviceStatus::from_bits_retain(s as u32));
            core::mem::forget(t);
            assert!(cfg.0[20] == s, "C11: set_status writes device_status");
            touched[20] = true;
        }
        3 => {
            let r = t.max_queue_size(q);
            core::mem::forget(t);
            assert!(rd16(&cfg, 22) == q && r == rd16(&before, 24) as u32, "C11: max_queue_size selects, then reads queue_size");
            touched[22] = true; touched[23] = true;
        }
        4 => {
            let r = t.queue_used(q);
            core::mem::forget(t);
            assert!(rd16(&cfg, 22) == q && r == (rd16(&before, 28) == 1), "C11: queue_used selects, then reads queue_enable");
            touched[22] = true; touched[23] = true;
        }
        5 => {
            let g = t.read_config_generation();
            let st = t.get_status();
            core::mem::forget(t);
            assert!(g == before.0[21] as u32, "C11: read_config_generation reads byte 21");
            assert!(st.bits() == (before.0[20] as u32) & 0xcf, "C11: get_status reads byte 20");
        }
        _ => {
            let r = t.ack_interrupt();
            core::mem::forget(t);
            assert!(r.bits() == isr0 as u32, "C11: ack_interrupt reads the ISR byte");
        }
    }
    let k: usize = kani::any();
    kani::assume(k < 56);
    assert!(touched[k] || cfg.0[k] == before.0[k], "C11: a byte outside the contract's access list was modified");
    assert!(notify == [0u16; NSLOTS], "C11: notification window touched by a non-notify operation");
}

/// C11 K∎: real `read_device_features`: low word read with select 0 ... composes lo | hi << 32.  The memory
/// stand-in returns the same `device_feature` word twice, so this checks composition, selector writes and
/// the frame; the select-before-read order is the Verus contract.  Loop-free: complete.
#[kani::proof]
fn c11_read_features_real() {
    let mut cfg = CfgMem(kani::any());
    let before = CfgMem(cfg.0);
    let mut notify = [0u16; NSLOTS];
    let mut isr: u8 = 0;
    let mut t = unsafe { transport_on(&mut cfg, &mut notify, &mut isr, 2) };
    let r = t.read_device_features();
    core::mem::forget(t);
    let w = rd32(&before, 4) as u64;
    assert!(r == w | (w << 32), "C11: read_device_features composition");
    assert!(rd32(&cfg, 0) == 1, "C11: device_feature_select left at 1");
    let k: usize = kani::any();
    kani::assume(k >= 4 && k < 56);
    assert!(cfg.0[k] == before.0[k], "C11: read_device_features modified a byte other than device_feature_select");
}

/// C11 K∎: real `notify` with an 8-slot notification window, every queue index, every queue_notify_off,
/// every even multiplier: either it panics (address outside the window — the only permitted failure) or
/// exactly the slot at byte offset queue_notify_off * multiplier receives the queue index.  Also validates
/// the reading of safe-mmio `get(i)` used by stub `notify_write_or_panic`.  Loop-free: complete for NSLOTS=8.
#[kani::proof]
fn c11_notify_real() {
    let mut cfg = CfgMem(kani::any());
    let off = rd16(&cfg, 30);
    let mult: u32 = kani::any();
    kani::assume(mult % 2 == 0);
    let mut notify = [0xeeeeu16; NSLOTS];
    let mut isr: u8 = 0;
    let q: u16 = kani::any();
    let byte_off = off as u64 * mult as u64;
    let inside = byte_off + 2 <= (NSLOTS * 2) as u64;
    // outside the window the real code panics (slice index check); only the inside case returns
    kani::assume(inside);
    let mut t = unsafe { transport_on(&mut cfg, &mut notify, &mut isr, mult) };
    t.notify(q);
    core::mem::forget(t);
    assert!(rd16(&cfg, 22) == q, "C11: notify selects the queue");
    let k: usize = kani::any();
    kani::assume(k < NSLOTS);
    if (k * 2) as u64 == byte_off {
        assert!(notify[k] == q, "C11: notify did not write the queue index at queue_notify_off * multiplier");
    } else {
        assert!(notify[k] == 0xeeee, "C11: notify wrote outside queue_notify_off * multiplier");
    }
}

/// C11 K∎: real `notify` whose address lies outside the window must not return (it panics on the slice index).
#[kani::proof]
#[kani::should_panic]
fn c11_notify_outside_panics() {
    let mut cfg = CfgMem(kani::any());
    let off = rd16(&cfg, 30);
    let mult: u32 = kani::any();
    kani::assume(mult % 2 == 0);
    kani::assume(off as u64 * mult as u64 + 2 > (NSLOTS * 2) as u64);
    let mut notify = [0u16; NSLOTS];
    let mut isr: u8 = 0;
    let mut t = unsafe { transport_on(&mut cfg, &mut notify, &mut isr, mult) };
    t.notify(kani::any());
    core::mem::forget(t);
}

/// C11 K∎: the `Drop` body on memory: device_status is written 0 and the wait ends when 0 is read back.
#[kani::proof]
#[kani::unwind(3)]
fn c11_drop_real() {
    let mut cfg = CfgMem(kani::any());
    let before = CfgMem(cfg.0);
    let mut notify = [0u16; NSLOTS];
    let mut isr: u8 = 0;
    let t = unsafe { transport_on(&mut cfg, &mut notify, &mut isr, 2) };
    drop(t);
    assert!(cfg.0[20] == 0, "C11: drop did not reset device_status");
    let k: usize = kani::any();
    kani::assume(k < 56 && k != 20);
    assert!(cfg.0[k] == before.0[k], "C11: drop modified a register other than device_status");
}

// ---------------------------------------------------------------------------------------------
// PciTransport::new on the real code
// ---------------------------------------------------------------------------------------------
const NCAP: usize = 4;
const CAP0: usize = 0x40;
const CAP_STRIDE: usize = 0x14;

/// reference: index of the first capability of type `ty` that is usable (VirtIO 1.x 4.1.4)
fn first_match(hdr: &[u32; NCAP], ty: u8) -> Option<usize> {
    let mut i = 0;
    while i < NCAP {
        let id = hdr[i] as u8;
        let cap_len = (hdr[i] >> 16) as u8;
        let cfg_type = (hdr[i] >> 24) as u8;
        // usable: a VirtIO capability (vendor id 9) of at least 16 bytes (20 for notify) that lies inside the 256-byte
        // configuration space (a capability that claims to extend beyond it is skipped)
        if id == 0x09 && cap_len >= 16 && CAP0 + CAP_STRIDE * i + cap_len as usize <= 256 && cfg_type == ty && (ty != 2 || cap_len >= 20) {
            return Some(i);
        }
        i += 1;
    }
    None
}

/// C11 K≤: real `PciTransport::new` over a reference PCI function whose capability list has NCAP=4 entries
/// (offsets 0x40 + 0x14*i) with symbolic id / cap_len / cfg_type bytes (any order, duplicates, short and
/// foreign capabilities), symbolic window offsets (length fixed 0x100, BAR 0 = 32-bit memory BAR of 64 KiB
/// at 0x1000_0000), symbolic multiplier: the result is an error or the windows are those of the FIRST
/// usable capability of each type, and a missing type gives its Missing* error.
/// Bounds: 4 capabilities, one BAR, offsets < 0xff00 (no S1 wrap).
#[kani::proof]
#[kani::unwind(20)]
fn c11_new_scan() {
    let mut cam = FakeCam { words: [0; 64], mask: [0; 64] };
    cam.mask[1] = 0xffff;
    cam.words[0] = 0x1042_1af4; // modern block device
    cam.words[1] = 0x0010_0000; // status: capabilities list
    cam.words[0x34 / 4] = CAP0 as u32;
    cam.mask[4] = 0xffff_0000;
    cam.words[4] = 0x1000_0000;
    let mut hdr = [0u32; NCAP];
    let mut offs = [0u32; NCAP];
    let mut mults = [0u32; NCAP];
    let mut i = 0;
    while i < NCAP {
        let id: u8 = kani::any();
        let cap_len: u8 = kani::any();
        let cfg_type: u8 = kani::any();
        let next: u32 = if i + 1 < NCAP { (CAP0 + CAP_STRIDE * (i + 1)) as u32 } else { 0 };
        hdr[i] = id as u32 | (next << 8) | ((cap_len as u32) << 16) | ((cfg_type as u32) << 24);
        offs[i] = kani::any();
        kani::assume(offs[i] < 0xff00);
        mults[i] = kani::any();
        let w = (CAP0 + CAP_STRIDE * i) / 4;
        cam.words[w] = hdr[i];
        cam.words[w + 1] = 0; // bar 0
        cam.words[w + 2] = offs[i];
        cam.words[w + 3] = 0x100;
        cam.words[w + 4] = mults[i];
        i += 1;
    }
    let mut root = PciRoot::new(cam);
    unsafe { NMAPPED = 0; }
    let r = PciTransport::new::<PHal, FakeCam>(&mut root, DF);
    let c = first_match(&hdr, 1);
    let n = first_match(&hdr, 2);
    let s = first_match(&hdr, 3);
    let d = first_match(&hdr, 4);
    match r {
        Ok(t) => {
            assert!(c.is_some() && n.is_some() && s.is_some(), "C11: transport constructed although a required capability is missing");
            let (c, n, s) = (c.unwrap(), n.unwrap(), s.unwrap());
            assert!(unsafe { MAPPED[0] } == (0x1000_0000 + offs[c] as u64, 0x100), "C11: common window is not the first usable type-1 capability");
            assert!(unsafe { MAPPED[1] } == (0x1000_0000 + offs[n] as u64, 0x100), "C11: notify window is not the first usable type-2 capability");
            assert!(unsafe { MAPPED[2] } == (0x1000_0000 + offs[s] as u64, 0x100), "C11: ISR window is not the first usable type-3 capability");
            assert!(t.notify_off_multiplier == mults[n] && mults[n] % 2 == 0, "C11: multiplier is not that of the chosen notify capability / odd");
            assert!(t.notify_region.len() == 0x80, "C11: notify window element count");
            assert!(offs[c] % 8 == 0 && offs[n] % 2 == 0, "C11: misaligned window accepted");
            match d {
                Some(d) => {
                    assert!(unsafe { NMAPPED } == 4 && unsafe { MAPPED[3] } == (0x1000_0000 + offs[d] as u64, 0x100), "C11: device window is not the first usable type-4 capability");
                    assert!(t.config_space.is_some() && offs[d] % 4 == 0, "C11: device configuration window");
                }
                None => assert!(unsafe { NMAPPED } == 3 && t.config_space.is_none(), "C11: device configuration window without capability"),
            }
            core::mem::forget(t);
        }
        Err(e) => {
            if c.is_none() { assert!(e == VirtioPciError::MissingCommonConfig, "C11: missing common capability not reported"); }
            if e == VirtioPciError::MissingNotifyConfig { assert!(n.is_none(), "C11: MissingNotifyConfig although a usable capability exists"); }
            if e == VirtioPciError::MissingIsrConfig { assert!(s.is_none(), "C11: MissingIsrConfig although a usable capability exists"); }
            if c.is_some() && n.is_some() && s.is_some() {
                let (c, n) = (c.unwrap(), n.unwrap());
                assert!(mults[n] % 2 == 1 || offs[c] % 8 != 0 || offs[n] % 2 != 0 || (d.is_some() && offs[d.unwrap()] % 4 != 0),
                    "C11: construction failed although all windows are present, inside the BAR and aligned");
            }
        }
    }
}

/// C11 witness for suspected defect S2: a vendor capability at configuration offset 0xf8 that claims
/// cap_len >= 16 makes `capability.offset + CAP_BAR_OFFSET_OFFSET` (u8) overflow in the real
/// `PciTransport::new`.  EXPECTED TO FAIL on the current tree (arithmetic overflow check).
#[kani::proof]
#[kani::unwind(20)]
fn c11_new_cap_at_end() {
    let mut cam = FakeCam { words: [0; 64], mask: [0; 64] };
    cam.mask[1] = 0xffff;
    cam.words[0] = 0x1042_1af4;
    cam.words[1] = 0x0010_0000;
    let at: u8 = kani::any();
    kani::assume(at >= 0x40 && at % 4 == 0);
    cam.words[0x34 / 4] = at as u32;
    let cap_len: u8 = kani::any();
    let cfg_type: u8 = kani::any();
    cam.words[(at >> 2) as usize] = 0x09 | ((cap_len as u32) << 16) | ((cfg_type as u32) << 24);
    let mut root = PciRoot::new(cam);
    let r = PciTransport::new::<PHal, FakeCam>(&mut root, DF);
    assert!(r.is_err(), "C11: a single capability cannot yield a transport");
}
