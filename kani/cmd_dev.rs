//! Reference device + recording HAL shared by the C20 scenario harnesses.  Not a harness module of its own: it is
//! included with `#[path = "/verif/kani/cmd_dev.rs"] mod dev;` from kani/cmd*.rs.
//!
//! The reference device sees only what a device sees: the addresses handed to `Transport::queue_set` (= the DMA
//! allocations, in allocation order: queue k uses allocations 2k (descriptor table + available ring) and 2k+1 (used
//! ring) in the modern layout), the rings in the VirtIO 1.x split-queue format (2.7.5 / 2.7.6 / 2.7.8) and the buffers
//! shared through the HAL.  `unshare` of a device-writable buffer is the moment the device's data becomes visible to
//! the driver (that is where a bounce-buffer HAL copies it back): the device's answer is delivered there.
#![allow(dead_code, missing_docs, clippy::undocumented_unsafe_blocks, static_mut_refs)]
extern crate alloc;
use crate::{BufferDirection, Hal, PhysAddr, PAGE_SIZE};
use core::ptr::NonNull;

/// device address = driver pointer + BOUNCE
pub const BOUNCE: u64 = 0x1_0000_0000;
pub const MAX_SH: usize = 12;
pub const MAX_DMA: usize = 10;
/// number of bytes captured from the front of every device-readable buffer at share time / delivered to the front
/// of every device-writable buffer at unshare time
pub const CAP: usize = 64;

#[derive(Clone, Copy)]
pub struct Sh {
    pub ptr: *mut u8,
    pub len: usize,
    /// 0 = DriverToDevice (device-readable), 1 = DeviceToDriver (device-writable), 2 = Both
    pub dir: u8,
    pub head: [u8; CAP],
}
const SH0: Sh = Sh { ptr: core::ptr::null_mut(), len: 0, dir: 9, head: [0; CAP] };
pub static mut DMA_PTR: [*mut u8; MAX_DMA] = [core::ptr::null_mut(); MAX_DMA];
pub static mut DMA_PAGES: [usize; MAX_DMA] = [0; MAX_DMA];
pub static mut DMA_LIVE: [bool; MAX_DMA] = [false; MAX_DMA];
pub static mut DMA_N: usize = 0;
pub static mut SH: [Sh; MAX_SH] = [SH0; MAX_SH];
pub static mut SH_N: usize = 0;
pub static mut UNSH_N: usize = 0;
pub static mut UNSH_BAD: bool = false;
pub static mut EMPTY_SHARE: bool = false;
pub static mut DEV_ARMED: bool = false;
pub static mut DEV_DATA: [u8; CAP] = [0; CAP];

fn dir_code(d: BufferDirection) -> u8 {
    match d {
        BufferDirection::DriverToDevice => 0,
        BufferDirection::DeviceToDriver => 1,
        BufferDirection::Both => 2,
    }
}

pub struct DHal;
unsafe impl Hal for DHal {
    fn dma_alloc(pages: usize, _direction: BufferDirection, _access_platform: bool) -> (PhysAddr, NonNull<u8>) {
        assert!(pages > 0);
        let layout = alloc::alloc::Layout::from_size_align(pages * PAGE_SIZE, PAGE_SIZE).unwrap();
        let p = unsafe { alloc::alloc::alloc_zeroed(layout) };
        let v = NonNull::new(p).unwrap();
        unsafe {
            assert!(DMA_N < MAX_DMA, "verif: DMA ledger overflow");
            DMA_PTR[DMA_N] = p;
            DMA_PAGES[DMA_N] = pages;
            DMA_LIVE[DMA_N] = true;
            DMA_N += 1;
        }
        (p as u64 + BOUNCE, v)
    }
    unsafe fn dma_dealloc(_paddr: PhysAddr, vaddr: NonNull<u8>, pages: usize, _access_platform: bool) -> i32 {
        unsafe {
            let mut k = 0;
            while k < MAX_DMA {
                if k < DMA_N && DMA_PTR[k] == vaddr.as_ptr() { DMA_LIVE[k] = false; }
                k += 1;
            }
        }
        let layout = alloc::alloc::Layout::from_size_align(pages * PAGE_SIZE, PAGE_SIZE).unwrap();
        unsafe { alloc::alloc::dealloc(vaddr.as_ptr(), layout) };
        0
    }
    unsafe fn mmio_phys_to_virt(paddr: PhysAddr, _size: usize) -> NonNull<u8> {
        NonNull::new(paddr as *mut u8).unwrap()
    }
    unsafe fn share(buffer: NonNull<[u8]>, direction: BufferDirection, _access_platform: bool) -> PhysAddr {
        let p = buffer.as_ptr() as *mut u8;
        let len = buffer.len();
        let d = dir_code(direction);
        unsafe {
            // hal.rs `# Safety` of share: "The buffer must be a valid pointer to a non-empty memory range"
            if len == 0 { EMPTY_SHARE = true; }
            assert!(SH_N < MAX_SH, "verif: share log overflow");
            let mut head = [0u8; CAP];
            if d == 0 {
                let n = if len < CAP { len } else { CAP };
                core::ptr::copy_nonoverlapping(p, head.as_mut_ptr(), n);
            }
            SH[SH_N] = Sh { ptr: p, len, dir: d, head };
            SH_N += 1;
        }
        p as u64 + BOUNCE
    }
    unsafe fn unshare(paddr: PhysAddr, buffer: NonNull<[u8]>, direction: BufferDirection, _access_platform: bool) {
        let p = buffer.as_ptr() as *mut u8;
        let len = buffer.len();
        unsafe {
            UNSH_N += 1;
            if paddr != p as u64 + BOUNCE { UNSH_BAD = true; }
            if DEV_ARMED && dir_code(direction) == 1 {
                let n = if len < CAP { len } else { CAP };
                core::ptr::copy_nonoverlapping(DEV_DATA.as_ptr(), p, n);
            }
        }
    }
}

pub fn dev_reset() {
    crate::verif_support::log_reset();
    unsafe {
        DMA_N = 0;
        SH_N = 0;
        UNSH_N = 0;
        UNSH_BAD = false;
        EMPTY_SHARE = false;
        DEV_ARMED = false;
    }
}
pub fn sh(i: usize) -> Sh { unsafe { SH[i] } }
pub fn sh_n() -> usize { unsafe { SH_N } }
pub fn unsh_n() -> usize { unsafe { UNSH_N } }
pub fn unsh_bad() -> bool { unsafe { UNSH_BAD } }
pub fn empty_share() -> bool { unsafe { EMPTY_SHARE } }
pub fn dma_n() -> usize { unsafe { DMA_N } }
pub fn dma_ptr(k: usize) -> *mut u8 { unsafe { DMA_PTR[k] } }
pub fn dma_pages(k: usize) -> usize { unsafe { DMA_PAGES[k] } }
pub fn dma_live(k: usize) -> bool { unsafe { DMA_LIVE[k] } }

/// the device marks chain `id` used with length `len` on the queue whose used ring is DMA allocation `used_dma`
/// (`qs` entries): VirtIO 1.x 2.7.8
pub fn dev_used_push(used_dma: usize, qs: usize, id: u16, len: u32) {
    unsafe {
        let u = DMA_PTR[used_dma];
        let idx = (u.add(2) as *const u16).read();
        let slot = (idx as usize) % qs;
        (u.add(4 + 8 * slot) as *mut u32).write(id as u32);
        (u.add(4 + 8 * slot + 4) as *mut u32).write(len);
        (u.add(2) as *mut u16).write(idx.wrapping_add(1));
    }
}
/// the available index of the queue whose descriptor area is DMA allocation `desc_dma` (`qs` entries): 2.7.6
pub fn dev_avail_idx(desc_dma: usize, qs: usize) -> u16 {
    unsafe { (DMA_PTR[desc_dma].add(16 * qs + 2) as *const u16).read() }
}
/// the device's answer (first CAP bytes of every device-writable buffer of the chains completed from now on)
pub fn dev_arm(data: &[u8; CAP]) {
    unsafe {
        DEV_DATA = *data;
        DEV_ARMED = true;
    }
}

pub fn put16(b: &mut [u8], off: usize, v: u16) { let x = v.to_le_bytes(); b[off] = x[0]; b[off + 1] = x[1]; }
pub fn put32(b: &mut [u8], off: usize, v: u32) { let x = v.to_le_bytes(); b[off] = x[0]; b[off + 1] = x[1]; b[off + 2] = x[2]; b[off + 3] = x[3]; }
pub fn put64(b: &mut [u8], off: usize, v: u64) {
    let x = v.to_le_bytes();
    let mut i = 0;
    while i < 8 { b[off + i] = x[i]; i += 1; }
}
/// `a` (at least n bytes) and `b` agree on their first n bytes (n <= CAP: fixed small loop)
pub fn eq_prefix(a: &[u8], b: &[u8], n: usize) -> bool {
    if a.len() < n || b.len() < n { return false; }
    let mut i = 0;
    let mut ok = true;
    while i < n {
        if a[i] != b[i] { ok = false; }
        i += 1;
    }
    ok
}
