//! Kani harnesses over the real sound driver's notification path (child module of `crate::device::sound`, so the
//! private `VirtIOSndEvent`, `NotificationType::n` and the private fields of `Notification` are visible).  Appended
//! to the scratch copy of src/device/sound.rs.  Second back end for the Verus unit `input_sound` (C19 / C07).
//!
//! All three harnesses are loop-free over full-domain symbolic inputs: COMPLETE proofs (the bound of
//! `c19_snd_event_layout` is stated there: the slice lengths tried).  They validate the contract stub `zc_read_event`
//! and the copied constants of units/input_sound.vrs and re-check `NotificationType::n` on the compiled code.
//!
//! No scenario harness: `VirtIOSound::new` builds four 32-entry queues plus 32 owned buffers, far beyond CBMC here
//! (see kani/init.rs); `OwningQueue::poll` itself has scenario harnesses at SIZE = 2 / 4 in kani/owning.rs.
#![allow(dead_code, missing_docs, clippy::undocumented_unsafe_blocks)]
use super::*;

fn le32(b: &[u8], o: usize) -> u32 {
    b[o] as u32 + 256 * (b[o + 1] as u32) + 65536 * (b[o + 2] as u32) + 16777216 * (b[o + 3] as u32)
}

/// C19 stub validation (`zc_read_event`): `VirtIOSndEvent::read_from_bytes` succeeds on EVERY 8-byte slice (all 2^64
/// contents, no alignment demand) and yields hdr.command_code = le32 at 0, data = le32 at 4 (VirtIO 1.x
/// `struct virtio_snd_event`); it fails for slices of 0, 4, 7 bytes (the lengths a short write can produce are 0..=7;
/// lengths above 8 never reach the closure: `OwningQueue::pop` answers IoError).  Constants: event size 8 = the
/// BUFFER_SIZE of the event queue, queue size 32.
#[kani::proof]
fn c19_snd_event_layout() {
    assert!(size_of::<VirtIOSndEvent>() == 8, "C19: size_of::<VirtIOSndEvent>() is not 8");
    assert!(QUEUE_SIZE == 32, "C19: sound queue size");
    let b: [u8; 8] = kani::any();
    match VirtIOSndEvent::read_from_bytes(&b[..]) {
        Ok(ev) => {
            assert!(ev.hdr.command_code == le32(&b, 0), "C19: event code is not the le32 at offset 0");
            assert!(ev.data == le32(&b, 4), "C19: event data is not the le32 at offset 4");
        }
        Err(_) => panic!("C19: an 8-byte event was refused"),
    }
    // an unaligned 8-byte slice is accepted as well
    let c: [u8; 9] = kani::any();
    assert!(VirtIOSndEvent::read_from_bytes(&c[1..9]).is_ok(), "C19: an unaligned 8-byte event was refused");
    assert!(VirtIOSndEvent::read_from_bytes(&b[0..0]).is_err(), "C19: an empty slice parsed as an event");
    assert!(VirtIOSndEvent::read_from_bytes(&b[0..4]).is_err(), "C19: a 4-byte slice parsed as an event");
    assert!(VirtIOSndEvent::read_from_bytes(&b[0..7]).is_err(), "C19: a 7-byte slice parsed as an event");
    assert!(VirtIOSndEvent::read_from_bytes(&c[..]).is_err(), "C19: a 9-byte slice parsed as an event");
}

/// C19 (complete over all 2^32 codes): `NotificationType::n` maps exactly the four VIRTIO_SND_EVT_* codes of VirtIO
/// 1.x 5.14.6.? (JACK_CONNECTED 0x1000, JACK_DISCONNECTED 0x1001, PCM_PERIOD_ELAPSED 0x1100, PCM_XRUN 0x1101) and
/// nothing else; the enum's own discriminants are those codes.
#[kani::proof]
fn c19_snd_notification_type() {
    let v: u32 = kani::any();
    let r = NotificationType::n(v);
    match v {
        0x1000 => assert!(r == Some(NotificationType::JackConnected), "C19: 0x1000 is not JackConnected"),
        0x1001 => assert!(r == Some(NotificationType::JackDisconnected), "C19: 0x1001 is not JackDisconnected"),
        0x1100 => assert!(r == Some(NotificationType::PcmPeriodElapsed), "C19: 0x1100 is not PcmPeriodElapsed"),
        0x1101 => assert!(r == Some(NotificationType::PcmXrun), "C19: 0x1101 is not PcmXrun"),
        _ => assert!(r.is_none(), "C19: an unknown event code was accepted"),
    }
    if let Some(t) = r {
        assert!(t as u32 == v, "C19: NotificationType discriminant differs from the wire code");
    }
}

/// C19: what the parsing closure of `latest_notification` computes, re-stated on the compiled code for every 8-byte
/// event (complete): known code => Notification { that type, data }, unknown code => the closure's `?` yields IoError.
/// (The closure itself cannot be called from outside `latest_notification`; this harness repeats its three calls.)
#[kani::proof]
fn c19_snd_notification_decode() {
    let b: [u8; 8] = kani::any();
    let ev = VirtIOSndEvent::read_from_bytes(&b[..]).unwrap();
    let n: core::result::Result<Notification, Error> = NotificationType::n(ev.hdr.command_code)
        .ok_or(Error::IoError)
        .map(|t| Notification { notification_type: t, data: ev.data });
    let code = le32(&b, 0);
    if code == 0x1000 || code == 0x1001 || code == 0x1100 || code == 0x1101 {
        let n = n.unwrap();
        assert!(n.notification_type() as u32 == code && n.data() == le32(&b, 4), "C19: notification differs from the event bytes");
    } else {
        assert!(n == Err(Error::IoError), "C19: unknown event code is not IoError");
    }
}
