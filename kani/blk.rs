//! Kani harnesses over the real block driver (C14).  Appended to the scratch copy of
//! src/device/blk.rs as a child module, so the private items of `crate::device::blk` are visible.
//!
//! * `c14_blkreq_layout`, `c14_blkresp_layout`, `c14_status_map_total`, `c14_consts`: full-domain symbolic
//!   inputs, no loop that depends on them (the only loops are fixed 16-byte comparisons): COMPLETE proofs.
//!   They validate the hand-written models of units/blk.vrs (zerocopy `as_bytes`/`as_mut_bytes`, the
//!   `BlkFeature` bit model, the constants, the config offsets) against the real types.
//! * `c14_new`, `c14_read_blocking`, `c14_write_blocking`, `c14_flush_gating`, `c14_device_id`,
//!   `c14_nb_two_read_first`, `c14_nb_two_write_first`, `c14_read_blocking_indirect`: BOUNDED stand-ins (bounds stated at each harness)
//!   that run the real driver on the real queue against a reference device.
//! * `c14_blocking_while_nb_outstanding`, `c14_blocking_while_nb_leak`: demonstrate a suspected defect (expected
//!   to FAIL; not part of the quick/thorough lists - see docs/builders/blk.report.md, D-blk-1).
//!
//! The reference device sees only what a device sees: the addresses handed to `Transport::queue_set`
//! (= the DMA allocations), the rings and descriptor table in the VirtIO 1.x split-queue format
//! (2.7.5 descriptor, 2.7.6 available ring, 2.7.8 used ring), and the buffers shared through the HAL.
#![allow(dead_code, missing_docs, clippy::undocumented_unsafe_blocks, static_mut_refs)]
extern crate alloc;
use super::*;
use crate::transport::DeviceType;
use crate::verif_support::{log_at, log_len, log_reset, Ev, KTransport, BOUNCE};
use crate::{BufferDirection, PhysAddr, PAGE_SIZE};
use core::ptr::NonNull;

// ---------------------------------------------------------------------------------------------------
// A recording HAL with bouncing addresses (device address = pointer + BOUNCE).  `unshare` of a
// device-writable buffer is the moment the device's data becomes visible to the driver (that is where a
// bounce-buffer HAL copies it back): the reference device's answer is delivered there.
// ---------------------------------------------------------------------------------------------------
const MAX_SH: usize = 12;
#[derive(Clone, Copy)]
struct Sh {
    ptr: *mut u8,
    len: usize,
    dir: u8, // 0 = DriverToDevice (device-readable), 1 = DeviceToDriver (device-writable)
    hdr: [u8; 16], // contents at share time of a 16-byte device-readable buffer
}
const SH0: Sh = Sh { ptr: core::ptr::null_mut(), len: 0, dir: 9, hdr: [0; 16] };
static mut DMA_PTR: [*mut u8; 4] = [core::ptr::null_mut(); 4];
static mut DMA_N: usize = 0;
static mut SH: [Sh; MAX_SH] = [SH0; MAX_SH];
static mut SH_N: usize = 0;
static mut UNSH_N: usize = 0;
static mut UNSH_BAD: bool = false;
/// the reference device's answer for the blocking scenarios
static mut DEV_ARMED: bool = false;
static mut DEV_STATUS: u8 = 0;
static mut DEV_DATA: [u8; 512] = [0; 512];

fn dir_code(d: BufferDirection) -> u8 {
    match d {
        BufferDirection::DriverToDevice => 0,
        BufferDirection::DeviceToDriver => 1,
        BufferDirection::Both => 2,
    }
}

pub struct BHal;
unsafe impl Hal for BHal {
    fn dma_alloc(pages: usize, _direction: BufferDirection, _access_platform: bool) -> (PhysAddr, NonNull<u8>) {
        assert!(pages > 0);
        let layout = alloc::alloc::Layout::from_size_align(pages * PAGE_SIZE, PAGE_SIZE).unwrap();
        let p = unsafe { alloc::alloc::alloc_zeroed(layout) };
        let v = NonNull::new(p).unwrap();
        unsafe {
            assert!(DMA_N < 4);
            DMA_PTR[DMA_N] = p;
            DMA_N += 1;
        }
        (p as u64 + BOUNCE, v)
    }
    unsafe fn dma_dealloc(_paddr: PhysAddr, vaddr: NonNull<u8>, pages: usize, _access_platform: bool) -> i32 {
        let layout = alloc::alloc::Layout::from_size_align(pages * PAGE_SIZE, PAGE_SIZE).unwrap();
        unsafe { alloc::alloc::dealloc(vaddr.as_ptr(), layout) };
        0
    }
    unsafe fn mmio_phys_to_virt(paddr: PhysAddr, _size: usize) -> NonNull<u8> {
        NonNull::new(paddr as *mut u8).unwrap()
    }
    unsafe fn share(buffer: NonNull<[u8]>, direction: BufferDirection, _access_platform: bool) -> PhysAddr {
        let p = buffer.as_ptr() as *mut u8;
        let len = buffer.len();
        let d = dir_code(direction);
        unsafe {
            assert!(SH_N < MAX_SH, "verif: share log overflow");
            let mut hdr = [0u8; 16];
            if d == 0 && len == 16 {
                core::ptr::copy_nonoverlapping(p, hdr.as_mut_ptr(), 16);
            }
            SH[SH_N] = Sh { ptr: p, len, dir: d, hdr };
            SH_N += 1;
        }
        p as u64 + BOUNCE
    }
    unsafe fn unshare(paddr: PhysAddr, buffer: NonNull<[u8]>, direction: BufferDirection, _access_platform: bool) {
        let p = buffer.as_ptr() as *mut u8;
        let len = buffer.len();
        unsafe {
            UNSH_N += 1;
            if paddr != p as u64 + BOUNCE {
                UNSH_BAD = true;
            }
            if DEV_ARMED && dir_code(direction) == 1 {
                if len == 1 {
                    *p = DEV_STATUS;
                } else if len <= 512 {
                    core::ptr::copy_nonoverlapping(DEV_DATA.as_ptr(), p, len);
                }
            }
        }
    }
}

fn hal_reset() {
    log_reset();
    unsafe {
        DMA_N = 0;
        SH_N = 0;
        UNSH_N = 0;
        UNSH_BAD = false;
        DEV_ARMED = false;
    }
}
fn sh(i: usize) -> Sh { unsafe { SH[i] } }
fn sh_n() -> usize { unsafe { SH_N } }
fn unsh_n() -> usize { unsafe { UNSH_N } }

// ---- the reference device's view of queue 0 (modern layout: DMA 0 = descriptor table + available ring,
//      DMA 1 = used ring; QUEUE_SIZE = 16) ------------------------------------------------------------
const QS: usize = QUEUE_SIZE as usize;
unsafe fn rd16(p: *mut u8, off: usize) -> u16 { unsafe { (p.add(off) as *const u16).read() } }
unsafe fn rd32(p: *mut u8, off: usize) -> u32 { unsafe { (p.add(off) as *const u32).read() } }
unsafe fn rd64(p: *mut u8, off: usize) -> u64 { unsafe { (p.add(off) as *const u64).read() } }
/// descriptor i: (addr, len, flags, next)  (VirtIO 1.x 2.7.5)
fn dev_desc(i: usize) -> (u64, u32, u16, u16) {
    unsafe {
        let d = DMA_PTR[0];
        (rd64(d, 16 * i), rd32(d, 16 * i + 8), rd16(d, 16 * i + 12), rd16(d, 16 * i + 14))
    }
}
fn dev_avail_idx() -> u16 { unsafe { rd16(DMA_PTR[0], 16 * QS + 2) } }
fn dev_avail_ring(slot: usize) -> u16 { unsafe { rd16(DMA_PTR[0], 16 * QS + 4 + 2 * slot) } }
/// the device marks chain `id` used (VirtIO 1.x 2.7.8)
fn dev_used_push(id: u16, len: u32) {
    unsafe {
        let u = DMA_PTR[1];
        let idx = rd16(u, 2);
        let slot = (idx as usize) % QS;
        (u.add(4 + 8 * slot) as *mut u32).write(id as u32);
        (u.add(4 + 8 * slot + 4) as *mut u32).write(len);
        (u.add(2) as *mut u16).write(idx.wrapping_add(1));
    }
}

const F_RO: u64 = 1 << 5;
const F_FLUSH: u64 = 1 << 9;
const F_INDIRECT: u64 = 1 << 28;
const F_EVENT_IDX: u64 = 1 << 29;
const F_VERSION_1: u64 = 1 << 32;
const F_ACCESS_PLATFORM: u64 = 1 << 33;
const SUPPORTED: u64 = F_RO | F_FLUSH | F_INDIRECT | F_EVENT_IDX | F_VERSION_1 | F_ACCESS_PLATFORM;

fn mk_blk(features: u64) -> VirtIOBlk<BHal, KTransport> {
    hal_reset();
    let mut t = KTransport::new(DeviceType::Block);
    t.device_features = features;
    VirtIOBlk::<BHal, KTransport>::new(t).unwrap()
}

/// VirtIO 1.x 5.2.6: struct virtio_blk_req { le32 type; le32 reserved; le64 sector; ... }
fn hdr_bytes(ty: u32, reserved: u32, sector: u64) -> [u8; 16] {
    let mut h = [0u8; 16];
    let (a, b, c) = (ty.to_le_bytes(), reserved.to_le_bytes(), sector.to_le_bytes());
    h[0] = a[0]; h[1] = a[1]; h[2] = a[2]; h[3] = a[3];
    h[4] = b[0]; h[5] = b[1]; h[6] = b[2]; h[7] = b[3];
    h[8] = c[0]; h[9] = c[1]; h[10] = c[2]; h[11] = c[3];
    h[12] = c[4]; h[13] = c[5]; h[14] = c[6]; h[15] = c[7];
    h
}
fn eq16(a: &[u8], b: &[u8; 16]) -> bool {
    if a.len() != 16 { return false; }
    let mut i = 0;
    let mut ok = true;
    while i < 16 {
        if a[i] != b[i] { ok = false; }
        i += 1;
    }
    ok
}
/// VirtIO 1.x 5.2.6 status values; 3 is the driver's "not written yet" marker
fn status_spec(s: u8) -> Result {
    match s {
        0 => Ok(()),
        1 => Err(Error::IoError),
        2 => Err(Error::Unsupported),
        3 => Err(Error::NotReady),
        _ => Err(Error::IoError),
    }
}

// ===================================================================================================
// Complete proofs (full input domain)
// ===================================================================================================

/// C14 K-complete: `BlkReq::as_bytes()` on the real type is `le32 type, le32 reserved, le64 sector` with the
/// VIRTIO_BLK_T_* codes, for every request type and ALL reserved/sector values; the header is 16 bytes.
/// (the two loops are fixed 16-iteration comparisons)
#[kani::proof]
#[kani::unwind(18)]
fn c14_blkreq_layout() {
    let which: u8 = kani::any();
    kani::assume(which < 8);
    let (ty, code) = match which {
        0 => (ReqType::In, 0u32),
        1 => (ReqType::Out, 1),
        2 => (ReqType::Flush, 4),
        3 => (ReqType::GetId, 8),
        4 => (ReqType::GetLifetime, 10),
        5 => (ReqType::Discard, 11),
        6 => (ReqType::WriteZeroes, 13),
        _ => (ReqType::SecureErase, 14),
    };
    let reserved: u32 = kani::any();
    let sector: u64 = kani::any();
    let r = BlkReq { type_: ty, reserved, sector };
    assert!(core::mem::size_of::<BlkReq>() == 16, "C14: request header is not 16 bytes");
    assert!(eq16(r.as_bytes(), &hdr_bytes(code, reserved, sector)), "C14: request header bytes are not le32 type, le32 reserved, le64 sector");
    let d = BlkReq::default();
    assert!(eq16(d.as_bytes(), &hdr_bytes(0, 0, 0)), "C14: BlkReq::default() is not {In, 0, 0}");
}

/// C14 K-complete: `BlkResp` is exactly one byte, the status; what the device writes through `as_mut_bytes`
/// is what `status()` returns, for all 256 values; a fresh response is NOT_READY (3).
#[kani::proof]
fn c14_blkresp_layout() {
    assert!(core::mem::size_of::<BlkResp>() == 1, "C14: status part is not one byte");
    let mut resp = BlkResp::default();
    assert!(resp.status() == RespStatus::NOT_READY && resp.status.0 == 3, "C14: fresh response is not NOT_READY");
    {
        let b = resp.as_mut_bytes();
        assert!(b.len() == 1 && b[0] == 3, "C14: as_mut_bytes is not the status byte");
    }
    let s: u8 = kani::any();
    resp.as_mut_bytes()[0] = s;
    assert!(resp.status().0 == s && resp.status() == RespStatus(s), "C14: status() is not the byte the device wrote");
}

/// C14 K-complete: the status -> Result map is total and follows VirtIO 1.x 5.2.6 for all 256 values.
#[kani::proof]
fn c14_status_map_total() {
    let s: u8 = kani::any();
    let r: Result = RespStatus(s).into();
    assert!(r == status_spec(s), "C14: device status mapped to the wrong result");
    assert!(RespStatus::OK.0 == 0 && RespStatus::IO_ERR.0 == 1 && RespStatus::UNSUPPORTED.0 == 2 && RespStatus::NOT_READY.0 == 3,
        "C14: status constants");
}

/// C14 K-complete: constants, feature bits, config-space offsets and the `contains` bit model used by
/// units/blk.vrs equal the real ones.
#[kani::proof]
fn c14_consts() {
    assert!(QUEUE == 0 && QUEUE_SIZE == 16 && SECTOR_SIZE == 512, "C14: QUEUE/QUEUE_SIZE/SECTOR_SIZE");
    assert!(BlkFeature::RO.bits() == F_RO && BlkFeature::FLUSH.bits() == F_FLUSH
        && BlkFeature::RING_INDIRECT_DESC.bits() == F_INDIRECT && BlkFeature::RING_EVENT_IDX.bits() == F_EVENT_IDX
        && BlkFeature::VERSION_1.bits() == F_VERSION_1 && BlkFeature::ACCESS_PLATFORM.bits() == F_ACCESS_PLATFORM,
        "C14: feature bit values");
    assert!(SUPPORTED_FEATURES.bits() == SUPPORTED && SUPPORTED == 0x3_3000_0220, "C14: SUPPORTED_FEATURES");
    assert!(core::mem::offset_of!(BlkConfig, capacity_low) == 0 && core::mem::offset_of!(BlkConfig, capacity_high) == 4,
        "C14: capacity is not the le64 at offset 0 of the configuration space");
    assert!(core::mem::size_of::<ReadOnly<u32>>() == 4, "C14: config register width");
    let b: u64 = kani::any();
    let f = BlkFeature::from_bits_retain(b);
    assert!(f.contains(BlkFeature::RO) == (b & F_RO == F_RO), "C14: contains(RO) bit model");
    assert!(f.contains(BlkFeature::FLUSH) == (b & F_FLUSH == F_FLUSH), "C14: contains(FLUSH) bit model");
    assert!(f.contains(BlkFeature::RING_INDIRECT_DESC) == (b & F_INDIRECT == F_INDIRECT), "C14: contains(INDIRECT) bit model");
    assert!(f.contains(BlkFeature::RING_EVENT_IDX) == (b & F_EVENT_IDX == F_EVENT_IDX), "C14: contains(EVENT_IDX) bit model");
    assert!(f.contains(BlkFeature::ACCESS_PLATFORM) == (b & F_ACCESS_PLATFORM == F_ACCESS_PLATFORM), "C14: contains(ACCESS_PLATFORM) bit model");
}

// ===================================================================================================
// Bounded scenarios on the real driver + real queue (QUEUE_SIZE = 16 as fixed by the driver)
// ===================================================================================================

/// C14 K-bounded: `new` for ALL 2^64 offered feature words and ALL capacity values (modern transport, one
/// construction): negotiated = offered & supported; capacity = le64 at config offset 0; read-only = RO bit;
/// queue 0 is set up with 16 entries before DRIVER_OK.  Bound: one call; flags table loop unwound (33 flags).
#[kani::proof]
#[kani::unwind(40)]
fn c14_new() {
    hal_reset();
    let features: u64 = kani::any();
    let cap: u64 = kani::any();
    let cfg_gen: u32 = kani::any();
    let mut t = KTransport::new(DeviceType::Block);
    t.device_features = features;
    t.generation = cfg_gen;
    let cb = cap.to_le_bytes();
    t.config[0] = cb[0]; t.config[1] = cb[1]; t.config[2] = cb[2]; t.config[3] = cb[3];
    t.config[4] = cb[4]; t.config[5] = cb[5]; t.config[6] = cb[6]; t.config[7] = cb[7];
    let blk = VirtIOBlk::<BHal, KTransport>::new(t).unwrap();
    assert!(blk.capacity() == cap, "C14: capacity differs from the device's configuration");
    assert!(blk.readonly() == (features & F_RO != 0), "C14: read-only state differs from the device's RO feature");
    assert!(blk.negotiated_features.bits() == features & SUPPORTED, "C14: negotiated features are not offered & supported");
    assert!(blk.virt_queue_size() == 16, "C14: queue size");
    // what the transport saw: driver features written, both capacity halves read between two generation
    // reads, queue 0 of 16 entries, DRIVER_OK last
    let mut wrote = false;
    let mut set0 = false;
    let mut reads = 0;
    let mut lo_at = 0;
    let mut hi_at = 0;
    let mut gen_before = 0;
    let mut gen_after = 0;
    let mut e = 0;
    while e < log_len() {
        match log_at(e) {
            Ev::WriteFeatures(f) => { assert!(f == features & SUPPORTED, "C14: driver features written"); wrote = true; }
            Ev::QueueSet(q, size, _, _, _) => { assert!(q == 0 && size == 16, "C14: queue 0 with 16 entries"); set0 = true; }
            Ev::CfgRead(off, sz) => {
                assert!(sz == 4 && (off == 0 || off == 4), "C14: capacity read as two 32-bit halves at offsets 0 and 4");
                if off == 0 { lo_at = e; } else { hi_at = e; }
                reads += 1;
            }
            Ev::GenRead => { if reads == 0 { gen_before = e; } else if gen_after == 0 { gen_after = e; } }
            _ => {}
        }
        e += 1;
    }
    assert!(wrote && set0 && reads == 2, "C14: initialisation steps");
    assert!(gen_before < lo_at && gen_before < hi_at && lo_at < gen_after && hi_at < gen_after,
        "C14: capacity halves not read inside one consistent read");
    assert!(log_at(log_len() - 1) == Ev::SetStatus(1 | 2 | 8 | 4), "C14: DRIVER_OK is not the last step");
}

/// the reference device pre-completes the next request (head `id`) so that the blocking helper's wait loop
/// exits at once, and arms its answer, delivered when the driver unshares the device-writable buffers
fn dev_answer(id: u16, status: u8, data: &[u8; 512]) {
    dev_used_push(id, 0);
    unsafe {
        DEV_STATUS = status;
        DEV_DATA = *data;
        DEV_ARMED = true;
    }
}

fn read_blocking(features: u64) {
    let mut blk = mk_blk(features);
    let indirect = features & F_INDIRECT != 0;
    let sector: usize = kani::any();
    let status: u8 = kani::any();
    let data: [u8; 512] = kani::any();
    let mut buf = [0u8; 512];
    dev_answer(0, status, &data);
    let n0 = log_len();
    let r = blk.read_blocks(sector, &mut buf);
    // exactly one request: header (device-readable), the caller's buffer (device-writable), one status byte
    // (device-writable), in this order
    let base = if indirect { 1 } else { 0 };
    assert!(sh_n() == 3 + base, "C14: a read is not one [header, data, status] request");
    let (h, d, s) = (sh(0), sh(1), sh(2));
    assert!(h.dir == 0 && h.len == 16 && eq16(&h.hdr, &hdr_bytes(0, 0, sector as u64)), "C14: read header is not {IN, 0, sector}");
    assert!(d.dir == 1 && d.len == 512 && d.ptr == buf.as_mut_ptr(), "C14: data part of a read is not the caller's buffer, device-writable");
    assert!(s.dir == 1 && s.len == 1, "C14: last part is not a one-byte device-writable status");
    assert!(!indirect || (sh(3).dir == 0 && sh(3).len == 48), "C14: indirect table");
    assert!(unsh_n() == sh_n() && unsafe { !UNSH_BAD }, "C14: buffers still shared after a completed blocking request");
    // result = image of the device's status; data = exactly the device's bytes
    assert!(r == status_spec(status), "C14: result is not the image of the device's status");
    let i: usize = kani::any();
    kani::assume(i < 512);
    assert!(buf[i] == data[i], "C14: read did not return exactly the bytes the device supplied");
    // the device was notified on queue 0 (no suppression requested)
    assert!(log_len() == n0 + 1 && log_at(n0) == Ev::Notify(0), "C14: notification");
}
/// C14 K-bounded: blocking read on the real driver+queue, ALL sectors, ALL device statuses, ALL 512-byte device
/// data.  Bounds: fresh queue, one request of one sector (512 bytes), direct descriptors, features = 0.
#[kani::proof]
#[kani::unwind(40)]
fn c14_read_blocking() { read_blocking(0); }
/// same with indirect descriptors negotiated (thorough tier)
#[kani::proof]
#[kani::unwind(40)]
fn c14_read_blocking_indirect() { read_blocking(F_INDIRECT); }

/// C14 K-bounded: blocking write: one [header{OUT,0,sector}, caller's bytes (device-readable), status] request;
/// ALL sectors / statuses; the bytes the device can read are exactly the caller's (same buffer, never written).
/// Bounds: fresh queue, one request of 512 bytes, direct descriptors.
#[kani::proof]
#[kani::unwind(40)]
fn c14_write_blocking() {
    let mut blk = mk_blk(0);
    let sector: usize = kani::any();
    let status: u8 = kani::any();
    let data: [u8; 512] = kani::any();
    let buf = data;
    dev_answer(0, status, &[0u8; 512]);
    let r = blk.write_blocks(sector, &buf);
    assert!(sh_n() == 3, "C14: a write is not one [header, data, status] request");
    let (h, d, s) = (sh(0), sh(1), sh(2));
    assert!(h.dir == 0 && h.len == 16 && eq16(&h.hdr, &hdr_bytes(1, 0, sector as u64)), "C14: write header is not {OUT, 0, sector}");
    assert!(d.dir == 0 && d.len == 512 && d.ptr as *const u8 == buf.as_ptr(), "C14: data part of a write is not the caller's buffer, device-readable");
    assert!(s.dir == 1 && s.len == 1, "C14: last part is not a one-byte device-writable status");
    assert!(unsh_n() == 3 && unsafe { !UNSH_BAD }, "C14: buffers still shared after a completed blocking request");
    assert!(r == status_spec(status), "C14: result is not the image of the device's status");
    let i: usize = kani::any();
    kani::assume(i < 512);
    assert!(buf[i] == data[i], "C14: write modified the caller's bytes");
}

/// C14 K-bounded: flush is sent iff FLUSH was negotiated (= offered), as one [header{FLUSH,0,0}, status] request.
/// Bounds: offered features in {0, FLUSH}, fresh queue, one call; ALL statuses.
#[kani::proof]
#[kani::unwind(40)]
fn c14_flush_gating() {
    let offer: bool = kani::any();
    let mut blk = mk_blk(if offer { F_FLUSH } else { 0 });
    let status: u8 = kani::any();
    dev_answer(0, status, &[0u8; 512]);
    let n0 = log_len();
    let r = blk.flush();
    if offer {
        assert!(sh_n() == 2, "C14: a flush is not one [header, status] request");
        let (h, s) = (sh(0), sh(1));
        assert!(h.dir == 0 && h.len == 16 && eq16(&h.hdr, &hdr_bytes(4, 0, 0)), "C14: flush header is not {FLUSH, 0, 0}");
        assert!(s.dir == 1 && s.len == 1, "C14: last part is not a one-byte device-writable status");
        assert!(r == status_spec(status), "C14: result is not the image of the device's status");
    } else {
        assert!(sh_n() == 0 && log_len() == n0 && dev_avail_idx() == 0, "C14: flush sent although FLUSH was not negotiated");
        assert!(r == Ok(()), "C14: flush without FLUSH support must succeed");
    }
}

/// C14 K-bounded: device_id: one [header{GET_ID,0,0}, caller's 20 bytes (device-writable), status] request; the
/// length returned is that of the NUL-terminated string.  Bounds: fresh queue, one call; ALL statuses/id bytes.
#[kani::proof]
#[kani::unwind(40)]
fn c14_device_id() {
    let mut blk = mk_blk(0);
    let status: u8 = kani::any();
    let mut data = [0u8; 512];
    let idb: [u8; 20] = kani::any();
    let mut k = 0;
    while k < 20 { data[k] = idb[k]; k += 1; }
    dev_answer(0, status, &data);
    let mut id = [0xffu8; 20];
    let r = blk.device_id(&mut id);
    assert!(sh_n() == 3, "C14: device_id is not one [header, id, status] request");
    let (h, d, s) = (sh(0), sh(1), sh(2));
    assert!(h.dir == 0 && h.len == 16 && eq16(&h.hdr, &hdr_bytes(8, 0, 0)), "C14: id header is not {GET_ID, 0, 0}");
    assert!(d.dir == 1 && d.len == 20 && d.ptr == id.as_mut_ptr(), "C14: id buffer");
    assert!(s.dir == 1 && s.len == 1, "C14: last part is not a one-byte device-writable status");
    match r {
        Ok(n) => {
            assert!(status == 0, "C14: success although the device reported an error");
            assert!(n <= 20, "C14: id length");
            let j: usize = kani::any();
            kani::assume(j < 20);
            assert!(id[j] == idb[j], "C14: id bytes are not the device's");
            if j < n { assert!(id[j] != 0, "C14: id length beyond the first NUL"); }
            if n < 20 { assert!(id[n] == 0, "C14: id length before the first NUL"); }
        }
        Err(e) => assert!(status != 0 && Err(e) == status_spec(status), "C14: error is not the image of the device's status"),
    }
}

/// walks the chain `head` in the descriptor table as the device does and checks it is
/// [16-byte readable header at `hdr`] (+ [readable data `rd`]) (+ [writable data `wr`]) + [1-byte writable status at `st`]
fn dev_check_chain(head: u16, hdr: *const u8, rd: Option<(*const u8, usize)>, wr: Option<(*const u8, usize)>, st: *const u8) {
    let (a, l, f, mut nx) = dev_desc(head as usize);
    assert!(a == hdr as u64 + BOUNCE && l == 16 && f == 1, "C14: first element is not the 16-byte device-readable header");
    if let Some((p, n)) = rd {
        let (a, l, f, n2) = dev_desc(nx as usize);
        assert!(a == p as u64 + BOUNCE && l as usize == n && f == 1, "C14: data part of a write is not the caller's buffer, device-readable");
        nx = n2;
    }
    if let Some((p, n)) = wr {
        let (a, l, f, n2) = dev_desc(nx as usize);
        assert!(a == p as u64 + BOUNCE && l as usize == n && f == 3, "C14: data part of a read is not the caller's buffer, device-writable");
        nx = n2;
    }
    let (a, l, f, _) = dev_desc(nx as usize);
    assert!(a == st as u64 + BOUNCE && l == 1 && f == 2, "C14: last element is not the one-byte device-writable status");
}

/// C14 K-bounded: non-blocking interface, two requests (a read and a write) outstanding at once, completed by the
/// device in the given order with ANY statuses and ANY byte at ANY position of the read data; the driver polls
/// `peek_used` and completes in that order: each completion returns the status and data of its own request;
/// completing the one that is not next is refused without effect.
/// Bounds: fresh queue, 2 outstanding requests of 512 bytes, direct descriptors, one harness per completion order
/// (both orders in one harness exhaust CBMC's memory here).
fn nb_two(write_first: bool) {
    let mut blk = mk_blk(0);
    let (s1, s2): (usize, usize) = (kani::any(), kani::any());
    let mut req1 = BlkReq::default();
    let mut req2 = BlkReq::default();
    let mut resp1 = BlkResp::default();
    let mut resp2 = BlkResp::default();
    let mut rbuf = [0u8; 512];
    let wbuf = [0x5au8; 512];
    let t1 = unsafe { blk.read_blocks_nb(s1, &mut req1, &mut rbuf, &mut resp1) }.unwrap();
    let t2 = unsafe { blk.write_blocks_nb(s2, &mut req2, &wbuf, &mut resp2) }.unwrap();
    assert!(t1 != t2, "C14: two outstanding requests share a token");
    // what the device sees
    assert!(dev_avail_idx() == 2 && dev_avail_ring(0) == t1 && dev_avail_ring(1) == t2, "C14: requests not made available in order");
    assert!(eq16(req1.as_bytes(), &hdr_bytes(0, 0, s1 as u64)), "C14: read header is not {IN, 0, sector}");
    assert!(eq16(req2.as_bytes(), &hdr_bytes(1, 0, s2 as u64)), "C14: write header is not {OUT, 0, sector}");
    dev_check_chain(t1, &req1 as *const BlkReq as *const u8, None, Some((rbuf.as_ptr(), 512)), &resp1 as *const BlkResp as *const u8);
    dev_check_chain(t2, &req2 as *const BlkReq as *const u8, Some((wbuf.as_ptr(), 512)), None, &resp2 as *const BlkResp as *const u8);
    assert!(blk.peek_used().is_none(), "C14: completion reported before the device used anything");
    // the device serves both, in the given order
    let (st1, st2): (u8, u8) = (kani::any(), kani::any());
    let i: usize = kani::any();
    kani::assume(i < 512);
    let v: u8 = kani::any();
    unsafe {
        rbuf.as_mut_ptr().add(i).write(v);
        (&mut resp1 as *mut BlkResp as *mut u8).write(st1);
        (&mut resp2 as *mut BlkResp as *mut u8).write(st2);
    }
    if write_first { dev_used_push(t2, 1); dev_used_push(t1, 513); } else { dev_used_push(t1, 513); dev_used_push(t2, 1); }
    assert!(blk.peek_used() == Some(if write_first { t2 } else { t1 }), "C14: peek_used");
    let (r1, r2);
    if write_first {
        // the read is not next: refused, nothing consumed
        let early = unsafe { blk.complete_read_blocks(t1, &req1, &mut rbuf, &mut resp1) };
        assert!(early == Err(Error::WrongToken) && blk.peek_used() == Some(t2), "C14: completion of a request that is not next must be refused without effect");
        r2 = unsafe { blk.complete_write_blocks(t2, &req2, &wbuf, &mut resp2) };
        assert!(blk.peek_used() == Some(t1), "C14: second completion");
        r1 = unsafe { blk.complete_read_blocks(t1, &req1, &mut rbuf, &mut resp1) };
    } else {
        let early = unsafe { blk.complete_write_blocks(t2, &req2, &wbuf, &mut resp2) };
        assert!(early == Err(Error::WrongToken) && blk.peek_used() == Some(t1), "C14: completion of a request that is not next must be refused without effect");
        r1 = unsafe { blk.complete_read_blocks(t1, &req1, &mut rbuf, &mut resp1) };
        assert!(blk.peek_used() == Some(t2), "C14: second completion");
        r2 = unsafe { blk.complete_write_blocks(t2, &req2, &wbuf, &mut resp2) };
    }
    assert!(r1 == status_spec(st1), "C14: read completion did not return the status of its own request");
    assert!(r2 == status_spec(st2), "C14: write completion did not return the status of its own request");
    assert!(resp1.status().0 == st1 && resp2.status().0 == st2, "C14: response status");
    assert!(rbuf[i] == v, "C14: read completion did not return exactly the bytes the device supplied");
    assert!(wbuf[i] == 0x5a, "C14: write data modified");
    assert!(blk.peek_used().is_none() && unsh_n() == 6 && unsafe { !UNSH_BAD }, "C14: requests not fully released");
}
#[kani::proof]
#[kani::unwind(40)]
fn c14_nb_two_read_first() { nb_two(false); }
#[kani::proof]
#[kani::unwind(40)]
fn c14_nb_two_write_first() { nb_two(true); }

// ===================================================================================================
// Suspected defect (expected to FAIL): see docs/builders/blk.report.md, "SUSPECTED DEFECT D-blk-1"
// ===================================================================================================

/// A non-blocking read is outstanding and the (conforming) device completes it; the caller then issues a
/// blocking read (a safe fn).  `add_notify_wait_pop` "assumes that the device isn't processing any other
/// buffers at the same time": its pop hits the other request's completion, the blocking read returns
/// Err(WrongToken) although the device never reported an error for it - and its chain, which points at the
/// header and status byte in the returned function's stack frame, is still available to the device.
fn blocking_while_nb(check_leak: bool) {
    let mut blk = mk_blk(0);
    let mut req1 = BlkReq::default();
    let mut resp1 = BlkResp::default();
    let mut rbuf = [0u8; 512];
    let t1 = unsafe { blk.read_blocks_nb(7, &mut req1, &mut rbuf, &mut resp1) }.unwrap();
    dev_used_push(t1, 513); // the device completes the outstanding non-blocking request
    let shared_before = sh_n();
    let mut buf = [0u8; 512];
    let r = blk.read_blocks(9, &mut buf);
    if check_leak {
        // the request (3 buffers, two of them in a dead stack frame) is still with the device
        assert!(sh_n() - shared_before == unsh_n(), "C14: blocking read returned while its request is still outstanding (buffers still shared with the device)");
    } else {
        // C14: "the device's status maps to success or the corresponding error": the device has not even
        // looked at this request, yet an error is returned
        assert!(r != Err(Error::WrongToken), "C14: blocking read returned WrongToken: result is not the image of its own request's status");
    }
}
#[kani::proof]
#[kani::unwind(40)]
fn c14_blocking_while_nb_outstanding() { blocking_while_nb(false); }
#[kani::proof]
#[kani::unwind(40)]
fn c14_blocking_while_nb_leak() { blocking_while_nb(true); }
