//! C13 Kani harnesses on the real `PciTransport::{read,write}_config_space` and
//! `read_config_generation` (child module of `crate::transport::pci`, appended to the scratch copy of
//! src/transport/pci.rs, so the private fields of `PciTransport` are visible).
//!
//! The device-configuration window is a heap object of EXACTLY `4 * words` bytes (`words` symbolic,
//! 1..=CAPW, the empty window, or no window at all), so CBMC's pointer checks flag any access outside it.
#![allow(dead_code, missing_docs, clippy::undocumented_unsafe_blocks)]
extern crate alloc;
use super::*;
use alloc::boxed::Box;
use core::mem::MaybeUninit;

/// largest window considered, in 32-bit words.  BOUND: windows of 0..=CAPW words or absent; offsets: all of usize.
const CAPW: usize = 3;

fn window(words: usize) -> NonNull<[u32]> {
    if words == 0 {
        return NonNull::slice_from_raw_parts(NonNull::<u32>::dangling(), 0);
    }
    let layout = alloc::alloc::Layout::from_size_align(4 * words, 4).unwrap();
    let p = NonNull::new(unsafe { alloc::alloc::alloc(layout) }).unwrap();
    let mut i = 0;
    while i < 4 * words {
        unsafe { p.as_ptr().add(i).write(kani::any()) };
        i += 1;
    }
    NonNull::slice_from_raw_parts(p.cast::<u32>(), words)
}

fn byte(win: NonNull<[u32]>, i: usize) -> u8 {
    unsafe { (win.as_ptr() as *const u8).add(i).read() }
}

/// A real `PciTransport` over zeroed (plain-memory) common configuration; `win` = the device-specific window.
fn mk(common: &'static mut MaybeUninit<CommonCfg>, win: Option<NonNull<[u32]>>) -> PciTransport {
    let isr: &'static mut u8 = Box::leak(Box::new(0u8));
    PciTransport {
        device_type: DeviceType::Block,
        device_function: DeviceFunction { bus: 0, device: 0, function: 0 },
        common_cfg: unsafe { UniqueMmioPointer::new(NonNull::new(common.as_mut_ptr()).unwrap()) },
        notify_region: unsafe {
            UniqueMmioPointer::new(NonNull::slice_from_raw_parts(NonNull::<WriteOnly<u16>>::dangling(), 0))
        },
        notify_off_multiplier: 0,
        isr_status: unsafe { UniqueMmioPointer::new(NonNull::from(isr).cast()) },
        config_space: win.map(|w| unsafe { UniqueMmioPointer::new(w) }),
    }
}

fn common() -> &'static mut MaybeUninit<CommonCfg> {
    Box::leak(Box::new(MaybeUninit::<CommonCfg>::zeroed()))
}

/// symbolic window: absent, or 0..=CAPW words
fn any_window() -> (Option<NonNull<[u32]>>, usize) {
    let present: bool = kani::any();
    let words: usize = kani::any();
    kani::assume(words <= CAPW);
    if present { (Some(window(words)), 4 * words) } else { (None, 0) }
}

fn read_case<T: FromBytes + IntoBytes + Immutable + Copy>() {
    let (win, len) = any_window();
    let offset: usize = kani::any();
    // overflowing ends: harness c13_pci_overflow_witness (defect D6); misaligned: documented panic
    kani::assume(offset <= usize::MAX - size_of::<T>());
    kani::assume(offset % align_of::<T>() == 0);
    let t = mk(common(), win);
    let r = t.read_config_space::<T>(offset);
    match win {
        None => assert!(matches!(r, Err(Error::ConfigSpaceMissing)), "C13: no window: must fail with ConfigSpaceMissing"),
        Some(w) => {
            if offset + size_of::<T>() <= len {
                assert!(r.is_ok(), "C13: access wholly inside the window was refused");
                let v = r.unwrap();
                let vb = v.as_bytes();
                let mut i = 0;
                while i < size_of::<T>() {
                    assert!(vb[i] == byte(w, offset + i), "C13: value read is not the window bytes [offset, offset+size)");
                    i += 1;
                }
            } else {
                assert!(matches!(r, Err(Error::ConfigSpaceTooSmall)), "C13: access not wholly inside the window must fail with ConfigSpaceTooSmall");
            }
        }
    }
    core::mem::forget(t);
}

fn write_case<T: FromBytes + IntoBytes + Immutable + Copy + kani::Arbitrary>() {
    let (win, len) = any_window();
    let mut before = [0u8; 4 * CAPW];
    if let Some(w) = win {
        let mut i = 0;
        while i < len {
            before[i] = byte(w, i);
            i += 1;
        }
    }
    let offset: usize = kani::any();
    kani::assume(offset <= usize::MAX - size_of::<T>());
    kani::assume(offset % align_of::<T>() == 0);
    let v: T = kani::any();
    let mut t = mk(common(), win);
    let r = t.write_config_space::<T>(offset, v);
    match win {
        None => assert!(matches!(r, Err(Error::ConfigSpaceMissing)), "C13: no window: must fail with ConfigSpaceMissing"),
        Some(w) => {
            let inside = offset + size_of::<T>() <= len;
            assert!(r.is_ok() == inside, "C13: write succeeds iff wholly inside the window");
            if !inside {
                assert!(matches!(r, Err(Error::ConfigSpaceTooSmall)), "C13: write outside the window must fail with ConfigSpaceTooSmall");
            }
            let vb = v.as_bytes();
            let mut i = 0;
            while i < len {
                if inside && i >= offset && i < offset + size_of::<T>() {
                    assert!(byte(w, i) == vb[i - offset], "C13: written bytes differ from the value");
                } else {
                    assert!(byte(w, i) == before[i], "C13: a byte outside [offset, offset+size) changed");
                }
                i += 1;
            }
        }
    }
    core::mem::forget(t);
}

/// C13 K: complete for windows absent / 0..=3 words x all aligned usize offsets without end overflow, T = u8.
#[kani::proof]
#[kani::unwind(14)]
fn c13_pci_read_u8() { read_case::<u8>(); }
#[kani::proof]
#[kani::unwind(14)]
fn c13_pci_read_u16() { read_case::<u16>(); }
#[kani::proof]
#[kani::unwind(14)]
fn c13_pci_read_u32() { read_case::<u32>(); }
/// T = [u8; 6] (MAC address)
#[kani::proof]
#[kani::unwind(14)]
fn c13_pci_read_mac() { read_case::<[u8; 6]>(); }
#[kani::proof]
#[kani::unwind(14)]
fn c13_pci_write_u32() { write_case::<u32>(); }
#[kani::proof]
#[kani::unwind(14)]
fn c13_pci_write_u8() { write_case::<u8>(); }

/// C13 / D6 WITNESS (expected to FAIL on the unfixed tree): `offset + size_of::<T>()` overflows for
/// offset > usize::MAX - 4.
#[kani::proof]
#[kani::unwind(14)]
fn c13_pci_overflow_witness() {
    let words: usize = kani::any();
    kani::assume(words <= CAPW);
    let win = window(words);
    let offset: usize = kani::any();
    kani::assume(offset % 4 == 0);
    let t = mk(common(), Some(win));
    let r = t.read_config_space::<u32>(offset);
    if offset > 4 * CAPW {
        assert!(matches!(r, Err(Error::ConfigSpaceTooSmall)), "C13: access beyond the window must fail with ConfigSpaceTooSmall");
    }
    core::mem::forget(t);
}

/// C13 K: `read_config_generation` returns the 8-bit config_generation field (offset 21 of
/// virtio_pci_common_cfg, VirtIO 1.x 4.1.4.3) zero-extended.
#[kani::proof]
fn c13_pci_generation() {
    let c = common();
    let g: u8 = kani::any();
    unsafe { (c.as_mut_ptr() as *mut u8).add(21).write(g) };
    assert!(core::mem::offset_of!(CommonCfg, config_generation) == 21, "C13: config_generation is not at offset 21");
    let t = mk(c, None);
    assert!(t.read_config_generation() == g as u32, "C13: read_config_generation does not return common_cfg.config_generation");
    core::mem::forget(t);
}
