//! C09 (fault enumeration): construction with the k-th DMA allocation failing, then drop, on the REAL drivers,
//! against the recording HAL/transport of support.rs (allocation ledger + liveness oracle inside dma_dealloc).
//! Appended to src/device/mod.rs.
#![allow(dead_code, missing_docs, clippy::undocumented_unsafe_blocks)]
use crate::transport::DeviceType;
use crate::verif_support::*;
use crate::Error;

fn setup(t: DeviceType, features: u64) -> KTransport {
    log_reset();
    let mut tr = KTransport::new(t);
    tr.device_features = features;
    tr.legacy = false;
    tr.unset_noop = kani::any();
    let fail_at: usize = kani::any();
    kani::assume(fail_at <= 5);
    unsafe { LOG.fail_alloc_at = fail_at; }
    tr
}
fn finish<T>(r: crate::Result<T>) {
    // measured coverage of the fault enumeration: which 'k-th allocation fails' points are reachable for this driver
    unsafe {
        kani::cover!(r.is_ok(), "construction succeeds and the driver is dropped");
        kani::cover!(r.is_err() && LOG.fail_alloc_at == 1 && LOG.allocs >= 1, "allocation 1 fails");
        kani::cover!(r.is_err() && LOG.fail_alloc_at == 2 && LOG.allocs >= 2, "allocation 2 fails");
        kani::cover!(r.is_err() && LOG.fail_alloc_at == 3 && LOG.allocs >= 3, "allocation 3 fails");
        kani::cover!(r.is_err() && LOG.fail_alloc_at == 4 && LOG.allocs >= 4, "allocation 4 fails");
        kani::cover!(r.is_err() && (LOG.fail_alloc_at == 0 || LOG.allocs < LOG.fail_alloc_at), "construction fails for another reason");
    }
    match r {
        Ok(d) => {
            unsafe { assert!(LOG.fail_alloc_at == 0 || LOG.allocs < LOG.fail_alloc_at, "C09: construction succeeded although an allocation failed"); }
            drop(d);
        }
        Err(e) => {
            unsafe {
                if LOG.fail_alloc_at != 0 && LOG.allocs >= LOG.fail_alloc_at {
                    assert!(e == Error::DmaError, "C09: a failed DMA allocation must be reported as DmaError");
                }
            }
        }
    }
    assert!(ledger_empty(), "C09: a DMA region was leaked");
    assert!(unsafe { LOG.live_allocs } == 0, "C09: allocation count not back to zero");
}

const F_V1_EV_IND: u64 = (1 << 32) | (1 << 29) | (1 << 28);

#[kani::proof]
#[kani::unwind(40)]
fn c09_rng() {
    let tr = setup(DeviceType::EntropySource, kani::any());
    finish(crate::device::rng::VirtIORng::<KHal, KTransport>::new(tr));
}

#[kani::proof]
#[kani::unwind(40)]
fn c09_blk() {
    let tr = setup(DeviceType::Block, kani::any());
    finish(crate::device::blk::VirtIOBlk::<KHal, KTransport>::new(tr));
}

/// The device reports an empty mount tag (length prefix 0): construction fails after the queue was set up.
/// (Non-empty tags go through Vec/String, which is beyond CBMC's reach here: bounded to this fault.)
#[kani::proof]
#[kani::unwind(40)]
fn c09_9p() {
    let mut tr = setup(DeviceType::_9P, F_V1_EV_IND);
    tr.config[0] = 0;
    tr.config[1] = 0;
    finish(crate::device::virtio_9p::VirtIO9p::<KHal, KTransport>::new(tr));
}

#[kani::proof]
#[kani::unwind(40)]
fn c09_console() {
    let tr = setup(DeviceType::Console, F_V1_EV_IND);
    finish(crate::device::console::VirtIOConsole::<KHal, KTransport>::new(tr));
}

#[kani::proof]
#[kani::unwind(40)]
fn c09_rtc() {
    let tr = setup(DeviceType::Timer, F_V1_EV_IND);
    finish(crate::device::rtc::VirtIORtc::<KHal, KTransport>::new(tr));
}

#[kani::proof]
#[kani::unwind(40)]
fn c09_gpu() {
    let tr = setup(DeviceType::GPU, F_V1_EV_IND);
    finish(crate::device::gpu::VirtIOGpu::<KHal, KTransport>::new(tr));
}

#[kani::proof]
#[kani::unwind(40)]
fn c09_net_raw() {
    let tr = setup(DeviceType::Network, F_V1_EV_IND);
    finish(crate::device::net::VirtIONetRaw::<KHal, KTransport, 4>::new(tr));
}

#[kani::proof]
#[kani::unwind(40)]
fn c09_vsock() {
    let tr = setup(DeviceType::Socket, F_V1_EV_IND);
    finish(crate::device::socket::VirtIOSocket::<KHal, KTransport, 64>::new(tr));
}
