//! C13 Kani harness on the real `read_mount_tag` (child module of `crate::device::virtio_9p`, appended to
//! the scratch copy of src/device/virtio_9p.rs).
#![allow(dead_code, missing_docs, clippy::undocumented_unsafe_blocks)]
use super::*;
use crate::transport::DeviceType;

#[path = "/verif/kani/config_script.rs"]
mod script;
use script::*;

/// `String::from_utf8` for byte strings known to be ASCII (the harness constrains the tag bytes to < 0x80): the
/// UTF-8 validator of core (word-at-a-time, pointer alignment arithmetic) exhausts CBMC's memory.
fn from_utf8_ascii(v: Vec<u8>) -> core::result::Result<String, alloc::string::FromUtf8Error> {
    Ok(unsafe { String::from_utf8_unchecked(v) })
}

/// C13 K<= (BOUND: STEPS = 12 scripted accesses, tag length 1 or 2 so that two or three iterations of the
/// retry loop fit; ASCII tag bytes): the mount tag returned by the real `read_mount_tag` has the length and
/// the bytes of ONE configuration, for every placement of configuration changes between the byte reads.
#[kani::proof]
#[kani::unwind(5)]
#[kani::stub(alloc::string::String::from_utf8, from_utf8_ascii)]
fn c13_9p_tag_untorn() {
    let t = ScriptT::any_unrolled(DeviceType::_9P);
    t.assume_honours_generation();
    macro_rules! shape {
        ($k:expr) => {
            kani::assume((t.cfg[$k][0] == 1 || t.cfg[$k][0] == 2) && t.cfg[$k][1] == 0);
            kani::assume(t.cfg[$k][2] < 0x80 && t.cfg[$k][3] < 0x80);
        };
    }
    shape!(0); shape!(1); shape!(2); shape!(3); shape!(4); shape!(5);
    shape!(6); shape!(7); shape!(8); shape!(9); shape!(10); shape!(11);
    let r = read_mount_tag(&t);
    let n = t.time();
    if let Ok(tag) = r {
        let len = tag.len();
        assert!(len == 1 || len == 2, "C13: tag length is not a length the device exposed");
        assert!(n >= len + 3, "C13: too few configuration accesses for the returned tag");
        let k = n - (len + 3);
        assert!(t.acc_at(k) == Acc::Gen && t.acc_at(n - 1) == Acc::Gen && t.gener[k] == t.gener[n - 1], "C13: tag not bracketed by equal generation reads");
        assert!(t.cfg[k][0] as usize == len, "C13: torn mount tag: length from another configuration generation");
        let b = tag.as_bytes();
        assert!(b[0] == t.cfg[k][2], "C13: torn mount tag: byte 0 from another configuration generation");
        if len == 2 {
            assert!(b[1] == t.cfg[k][3], "C13: torn mount tag: byte 1 from another configuration generation");
        }
    }
}
