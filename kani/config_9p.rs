//! C13 Kani harness on the real `read_mount_tag` (child module of `crate::device::virtio_9p`, appended to
//! the scratch copy of src/device/virtio_9p.rs).
#![allow(dead_code, missing_docs, clippy::undocumented_unsafe_blocks)]
use super::*;
use crate::transport::DeviceType;

#[path = "/verif/kani/config_script.rs"]
mod script;
use script::*;

/// C13 K<= (BOUND: STEPS = 12 scripted accesses, tag length <= 2 so that two iterations of the retry loop
/// fit; ASCII tag bytes): the mount tag returned by the real `read_mount_tag` has the length and the bytes
/// of ONE configuration, for every placement of configuration changes between the byte reads.
#[kani::proof]
#[kani::unwind(18)]
fn c13_9p_tag_untorn() {
    let t = ScriptT::any(DeviceType::_9P);
    t.assume_honours_generation();
    let mut k = 0;
    while k < STEPS {
        kani::assume(u16::from_le_bytes([t.cfg[k][0], t.cfg[k][1]]) <= 2);
        kani::assume(t.cfg[k][2] < 0x80 && t.cfg[k][3] < 0x80);
        k += 1;
    }
    let r = read_mount_tag(&t);
    let n = t.time();
    if let Ok(tag) = r {
        let len = tag.len();
        assert!(n >= len + 3, "C13: too few configuration accesses for the returned tag");
        let k = n - (len + 3);
        assert!(t.acc_at(k) == Acc::Gen && t.acc_at(n - 1) == Acc::Gen && t.gener[k] == t.gener[n - 1], "C13: tag not bracketed by equal generation reads");
        assert!(u16::from_le_bytes([t.cfg[k][0], t.cfg[k][1]]) as usize == len, "C13: torn mount tag: length from another configuration generation");
        let b = tag.as_bytes();
        let mut i = 0;
        while i < len {
            assert!(b[i] == t.cfg[k][2 + i], "C13: torn mount tag: byte from another configuration generation");
            i += 1;
        }
    }
}
