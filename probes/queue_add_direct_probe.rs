use vstd::prelude::*;

#[derive(Clone, Copy)]
pub struct NonNullBuf(pub core::ptr::NonNull<[u8]>);

verus! {

#[verifier::external_type_specification]
#[verifier::external_body]
pub struct ExNonNullBuf(NonNullBuf);

pub uninterp spec fn buf_len(p: NonNullBuf) -> nat;
pub uninterp spec fn share_ret(p: NonNullBuf, d: BufferDirection) -> u64;

#[verifier::external_body]
fn nnb_len(p: NonNullBuf) -> (r: usize) ensures r == buf_len(p) { p.0.len() }
#[verifier::external_body]
fn vpanic_ok() -> ! { panic!() }
#[verifier::external_body]
fn vpanic_never() -> ! requires false { panic!() }

#[derive(Copy, Clone, Debug, Eq, PartialEq)]
pub enum BufferDirection { DriverToDevice, DeviceToDriver, Both }
pub type PhysAddr = u64;

pub struct DescFlags(pub u16);
pub const NEXT: u16 = 1;
pub const WRITE: u16 = 2;
pub const INDIRECT: u16 = 4;

#[derive(Clone)]
pub struct Descriptor { pub addr: u64, pub len: u32, pub flags: u16, pub next: u16 }

#[verifier::external_body]
fn hal_share(buf: NonNullBuf, direction: BufferDirection, access_platform: bool) -> (r: PhysAddr)
    requires buf_len(buf) > 0,
    ensures r == share_ret(buf, direction)
{ unimplemented!() }

impl Descriptor {
    fn set_buf(&mut self, buf: NonNullBuf, direction: BufferDirection, extra_flags: u16, access_platform: bool)
        requires buf_len(buf) > 0, buf_len(buf) <= u32::MAX,
        ensures
            final(self).next == old(self).next,
            final(self).len == buf_len(buf),
            final(self).addr == share_ret(buf, direction),
            direction != BufferDirection::Both,
            final(self).flags == (extra_flags | (if direction == BufferDirection::DeviceToDriver { WRITE } else { 0u16 })),
    {
        self.addr = hal_share(buf, direction, access_platform);
        self.len = nnb_len(buf) as u32;
        self.flags = extra_flags
            | match direction {
                BufferDirection::DeviceToDriver => WRITE,
                BufferDirection::DriverToDevice => 0u16,
                BufferDirection::Both => { vpanic_ok() }
            };
    }
}

pub struct BufSpec { pub buf: NonNullBuf, pub dir: BufferDirection }

pub struct It { pub pos: Ghost<nat>, pub all: Ghost<Seq<BufSpec>> }
impl It {
    #[verifier::external_body]
    fn next(&mut self) -> (r: Option<(NonNullBuf, BufferDirection)>)
        requires old(self).pos@ <= old(self).all@.len(),
        ensures
            final(self).all@ == old(self).all@,
            old(self).pos@ < old(self).all@.len() ==> r is Some && final(self).pos@ == old(self).pos@ + 1
                && r.unwrap().0 == old(self).all@[old(self).pos@ as int].buf && r.unwrap().1 == old(self).all@[old(self).pos@ as int].dir,
            old(self).pos@ == old(self).all@.len() ==> r is None && final(self).pos@ == old(self).pos@,
    { unimplemented!() }
}

pub open spec fn buf_ok(b: BufSpec) -> bool { 0 < buf_len(b.buf) <= u32::MAX && b.dir != BufferDirection::Both }
pub open spec fn filled(d: Descriptor, b: BufSpec) -> bool {
    d.addr == share_ret(b.buf, b.dir) && d.len == buf_len(b.buf)
}
pub open spec fn has_next(d: Descriptor) -> bool { d.flags & NEXT != 0 }

pub struct DevMem { pub desc: Seq<Descriptor>, pub log: Seq<int> }

pub struct Q<const SIZE: usize> {
    pub num_used: u16,
    pub free_head: u16,
    pub desc_shadow: [Descriptor; SIZE],
    pub avail_idx: u16,
    pub access_platform: bool,
    pub free: Ghost<Seq<u16>>,
    pub dev: Ghost<DevMem>,
}

impl<const SIZE: usize> Q<SIZE> {
    pub open spec fn wf_free(&self) -> bool {
        &&& 0 < SIZE <= 32768
        &&& self.free@.len() + self.num_used == SIZE
        &&& self.free@.no_duplicates()
        &&& forall|i: int| 0 <= i < self.free@.len() ==> (#[trigger] self.free@[i]) < SIZE
        &&& (self.free@.len() > 0 ==> self.free@[0] == self.free_head)
        &&& forall|i: int| 0 <= i < self.free@.len() - 1 ==> self.desc_shadow[(#[trigger] self.free@[i]) as int].next == self.free@[i + 1]
        &&& self.dev@.desc.len() == SIZE
    }

    #[verifier::external_body]
    fn write_desc(&mut self, index: u16)
        requires (index as int) < SIZE, old(self).dev@.desc.len() == SIZE,
        ensures
            final(self).dev@.desc == old(self).dev@.desc.update(index as int, old(self).desc_shadow[index as int]),
            final(self).dev@.log == old(self).dev@.log.push(index as int),
            final(self).num_used == old(self).num_used, final(self).free_head == old(self).free_head,
            final(self).desc_shadow == old(self).desc_shadow, final(self).avail_idx == old(self).avail_idx,
            final(self).free == old(self).free, final(self).access_platform == old(self).access_platform,
    { unimplemented!() }

    fn add_direct(&mut self, it: &mut It, Ghost(n): Ghost<nat>, n_exec: usize) -> (head: u16)
        requires
            old(self).wf_free(),
            old(it).pos@ == 0, old(it).all@.len() == n, n_exec == n, 1 <= n <= old(self).free@.len(),
            forall|j: int| 0 <= j < n ==> buf_ok(#[trigger] old(it).all@[j]),
        ensures
            head == old(self).free@[0],
            final(self).free@ == old(self).free@.skip(n as int),
            final(self).num_used == old(self).num_used + n,
            final(self).wf_free(),
            forall|j: int| 0 <= j < n ==> {
                let d = final(self).desc_shadow[(#[trigger] old(self).free@[j]) as int];
                &&& filled(d, old(it).all@[j])
                &&& has_next(d) == (j < n - 1)
                &&& (j < n - 1 ==> d.next == old(self).free@[j + 1])
                &&& final(self).dev@.desc[old(self).free@[j] as int] == d
            },
    {
        // allocate descriptors from free list
        let head = self.free_head;
        let mut last = self.free_head;
        let ghost k: nat = 0;
        let ghost free0 = self.free@;

        loop
            invariant
                it.pos@ == k, it.all@ == old(it).all@, it.all@.len() == n, k <= n,
                0 < SIZE <= 32768,
                self.free@ == free0, free0 == old(self).free@,
                self.dev@.desc.len() == SIZE,
                self.num_used == old(self).num_used,
                self.access_platform == old(self).access_platform,
                free0.no_duplicates(), n <= free0.len(), free0.len() + self.num_used == SIZE,
                forall|i: int| 0 <= i < free0.len() ==> (#[trigger] free0[i]) < SIZE,
                forall|i: int| 0 <= i < free0.len() - 1 ==> self.desc_shadow[(#[trigger] free0[i]) as int].next == free0[i + 1],
                k < free0.len() ==> self.free_head == free0[k as int],
                k > 0 ==> last == free0[k - 1],
                k == 0 ==> last == free0[0],
                head == free0[0],
                forall|j: int| 0 <= j < n ==> buf_ok(#[trigger] it.all@[j]),
                forall|j: int| 0 <= j < k ==> {
                    let d = self.desc_shadow[(#[trigger] free0[j]) as int];
                    &&& filled(d, it.all@[j])
                    &&& has_next(d)
                    &&& d.next == (if j + 1 < free0.len() { free0[j + 1] } else { d.next })
                    &&& self.dev@.desc[free0[j] as int] == d
                },
            ensures k == n,
            decreases n - k,
        {
            match it.next() {
                Some((buffer, direction)) => {
                    if nnb_len(buffer) == 0 { vpanic_ok() }

                    // Write to desc_shadow then copy.
                    let desc = &mut self.desc_shadow[usize::from(self.free_head)];
                    desc.set_buf(buffer, direction, NEXT, self.access_platform);
                    last = self.free_head;
                    self.free_head = desc.next;

                    self.write_desc(last);
                    proof {
                        assert(buf_ok(it.all@[k as int]));
                        assert((NEXT | WRITE) & NEXT != 0 && (NEXT | 0u16) & NEXT != 0) by (bit_vector);
                        assert forall|j: int| 0 <= j < k implies (#[trigger] free0[j]) != free0[k as int] by {}
                        k = k + 1;
                    }
                }
                None => { break; }
            }
        }

        // set last_elem.next = NULL
        self.desc_shadow[usize::from(last)].flags = self.desc_shadow[usize::from(last)].flags & !NEXT;
        self.write_desc(last);

        self.num_used += n_exec as u16;
        proof {
            self.free@ = free0.skip(n as int);
            let f = self.desc_shadow[last as int].flags;
            assert(last == free0[n - 1]);
            assert forall|x: u16| (x & !NEXT) & NEXT == 0 by { assert((x & !NEXT) & NEXT == 0) by (bit_vector); }
            assert forall|j: int| 0 <= j < n - 1 implies (#[trigger] free0[j]) != free0[n - 1] by {}
            assert forall|i: int| 0 <= i < free0.skip(n as int).len() implies (#[trigger] free0.skip(n as int)[i]) == free0[i + n] by {}
        }

        head
    }
}

} // verus!
fn main() {}
